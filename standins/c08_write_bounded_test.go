// BOUNDED STAND-IN (not a proof) for filenode.Write and the code around it
// (segment splicing, truncate, seek/read through two handles, synchronous
// flush, manifest round trip), which the contract engine cannot reach (see
// /verif/DESIGN.md 10.8).  Injected into package arvados with `go test
// -overlay`; runs against the real code of the working tree.
//
// Bound: every sequence of at most GOVC_BOUND operations (default 3) from the
// alphabet below, on one file opened through two read-write handles, for block
// sizes 2, 3 and 8, compared step by step with a byte-array model; then every
// sequence of at most GOVC_BOUND+1 operations from a reduced alphabet (write
// 3/5, seek to 2/7, seek to end, truncate to 0/2, read 2 - per handle - and
// flush), same block sizes.

package arvados

import (
	"bytes"
	"crypto/md5"
	"fmt"
	"io"
	"io/ioutil"
	"os"
	"strconv"
	"sync"
	"testing"
)

type govcKeep struct {
	mu     sync.Mutex
	blocks map[string][]byte
}

func (k *govcKeep) ReadAt(locator string, p []byte, off int) (int, error) {
	k.mu.Lock()
	defer k.mu.Unlock()
	buf, ok := k.blocks[locator[:32]]
	if !ok {
		return 0, fmt.Errorf("govc stub: block %s not found", locator)
	}
	if off > len(buf) {
		return 0, io.ErrUnexpectedEOF
	}
	return copy(p, buf[off:]), nil
}

func (k *govcKeep) PutB(p []byte) (string, int, error) {
	loc := fmt.Sprintf("%x+%d", md5.Sum(p), len(p))
	k.mu.Lock()
	defer k.mu.Unlock()
	k.blocks[loc[:32]] = append([]byte(nil), p...)
	return loc, 1, nil
}

func (k *govcKeep) LocalLocator(locator string) (string, error) { return locator, nil }

type govcOp struct {
	kind string // W S E T R F
	h    int    // handle
	arg  int
}

func (o govcOp) String() string {
	if o.kind == "F" {
		return "Flush"
	}
	return fmt.Sprintf("%s(h%d,%d)", o.kind, o.h, o.arg)
}

func govcAlphabet() []govcOp {
	return govcMakeAlphabet([]int{1, 3, 5}, []int{0, 2, 7}, []int{0, 2, 6}, []int{2, 4})
}

// the reduced alphabet of the second, one step deeper pass
func govcReducedAlphabet() []govcOp {
	return govcMakeAlphabet([]int{3, 5}, []int{2, 7}, []int{0, 2}, []int{2})
}

func govcMakeAlphabet(writes, seeks, truncs, reads []int) []govcOp {
	var ops []govcOp
	for h := 0; h < 2; h++ {
		for _, k := range writes {
			ops = append(ops, govcOp{"W", h, k})
		}
		for _, off := range seeks {
			ops = append(ops, govcOp{"S", h, off})
		}
		ops = append(ops, govcOp{"E", h, 0})
		for _, n := range truncs {
			ops = append(ops, govcOp{"T", h, n})
		}
		for _, k := range reads {
			ops = append(ops, govcOp{"R", h, k})
		}
	}
	ops = append(ops, govcOp{"F", 0, 0})
	return ops
}

// govcRun executes one operation sequence on a fresh filesystem and returns a
// description of the first disagreement with the model ("" if none).
func govcRun(seq []govcOp) (msg string) {
	defer func() {
		if r := recover(); r != nil {
			msg = fmt.Sprintf("panic: %v", r)
		}
	}()
	kc := &govcKeep{blocks: map[string][]byte{}}
	fs, err := (&Collection{}).FileSystem(nil, kc)
	if err != nil {
		return "FileSystem: " + err.Error()
	}
	var hs [2]File
	for i := range hs {
		f, err := fs.OpenFile("f", os.O_CREATE|os.O_RDWR, 0644)
		if err != nil {
			return "OpenFile: " + err.Error()
		}
		hs[i] = f
		defer f.Close()
	}
	var model []byte
	var pos [2]int
	next := byte('a')
	for i, op := range seq {
		at := fmt.Sprintf("step %d %v: ", i, op)
		switch op.kind {
		case "W":
			data := make([]byte, op.arg)
			for j := range data {
				data[j] = next
				next++
				if next > 'z' {
					next = 'a'
				}
			}
			n, err := hs[op.h].Write(data)
			if err != nil || n != len(data) {
				return at + fmt.Sprintf("Write returned %d, %v", n, err)
			}
			if pos[op.h] > len(model) {
				model = append(model, make([]byte, pos[op.h]-len(model))...)
			}
			end := pos[op.h] + len(data)
			if end > len(model) {
				model = append(model, make([]byte, end-len(model))...)
			}
			copy(model[pos[op.h]:], data)
			pos[op.h] = end
		case "S":
			p, err := hs[op.h].Seek(int64(op.arg), io.SeekStart)
			if err != nil || p != int64(op.arg) {
				return at + fmt.Sprintf("Seek returned %d, %v", p, err)
			}
			pos[op.h] = op.arg
		case "E":
			p, err := hs[op.h].Seek(0, io.SeekEnd)
			if err != nil || p != int64(len(model)) {
				return at + fmt.Sprintf("Seek(end) returned %d, %v; model size %d", p, err, len(model))
			}
			pos[op.h] = len(model)
		case "T":
			if err := hs[op.h].Truncate(int64(op.arg)); err != nil {
				return at + "Truncate: " + err.Error()
			}
			if op.arg <= len(model) {
				model = model[:op.arg]
			} else {
				model = append(model, make([]byte, op.arg-len(model))...)
			}
		case "R":
			buf := make([]byte, op.arg)
			n, err := hs[op.h].Read(buf)
			if pos[op.h] >= len(model) {
				if n != 0 || err != io.EOF {
					return at + fmt.Sprintf("Read at/after EOF returned %d, %v", n, err)
				}
				break
			}
			if n <= 0 || n > op.arg || pos[op.h]+n > len(model) {
				return at + fmt.Sprintf("Read returned %d, %v at pos %d of %d", n, err, pos[op.h], len(model))
			}
			if err != nil && err != io.EOF {
				return at + "Read: " + err.Error()
			}
			if !bytes.Equal(buf[:n], model[pos[op.h]:pos[op.h]+n]) {
				return at + fmt.Sprintf("Read returned %q, model has %q", buf[:n], model[pos[op.h]:pos[op.h]+n])
			}
			pos[op.h] += n
		case "F":
			txt, err := fs.MarshalManifest(".")
			if err != nil {
				return at + "MarshalManifest: " + err.Error()
			}
			if msg := govcReload(txt, kc, model); msg != "" {
				return at + msg
			}
		}
		if sz := hs[0].Size(); sz != int64(len(model)) {
			return at + fmt.Sprintf("Size() = %d, model size %d", sz, len(model))
		}
	}
	// final: whole content through a fresh handle, and after a save/reload
	f, err := fs.OpenFile("f", os.O_RDONLY, 0)
	if err != nil {
		return "final open: " + err.Error()
	}
	got, err := ioutil.ReadAll(f)
	f.Close()
	if err != nil || !bytes.Equal(got, model) {
		return fmt.Sprintf("final content %q (err %v), model %q", got, err, model)
	}
	txt, err := fs.MarshalManifest(".")
	if err != nil {
		return "final MarshalManifest: " + err.Error()
	}
	return govcReload(txt, kc, model)
}

func govcReload(txt string, kc *govcKeep, model []byte) string {
	fs2, err := (&Collection{ManifestText: txt}).FileSystem(nil, kc)
	if err != nil {
		return fmt.Sprintf("saved manifest %q does not load: %v", txt, err)
	}
	f, err := fs2.OpenFile("f", os.O_RDONLY, 0)
	if err != nil {
		return fmt.Sprintf("saved manifest %q: open f: %v", txt, err)
	}
	defer f.Close()
	got, err := ioutil.ReadAll(f)
	if err != nil || !bytes.Equal(got, model) {
		return fmt.Sprintf("saved manifest %q reads back %q (err %v), model %q", txt, got, err, model)
	}
	return ""
}

func TestGovcBoundedC08(t *testing.T) {
	bound := 3
	if s := os.Getenv("GOVC_BOUND"); s != "" {
		if n, err := strconv.Atoi(s); err == nil && n > 0 {
			bound = n
		}
	}
	saved := maxBlockSize
	defer func() { maxBlockSize = saved }()
	total := 0
	failed := false
	pass := func(alphabet []govcOp, bound, minDepth int) {
		for _, bs := range []int{2, 3, 8} {
			maxBlockSize = bs
			seq := make([]govcOp, 0, bound)
			var rec func(depth int) bool
			rec = func(depth int) bool {
				if depth >= minDepth && depth > 0 {
					total++
					if msg := govcRun(seq); msg != "" {
						t.Errorf("GOVC-BOUNDED-FAIL blocksize=%d sequence=%v: %s", bs, seq, msg)
						return false
					}
				}
				if depth == bound {
					return true
				}
				for _, op := range alphabet {
					seq = append(seq, op)
					ok := rec(depth + 1)
					seq = seq[:len(seq)-1]
					if !ok {
						return false
					}
				}
				return true
			}
			if !rec(0) {
				failed = true
				return
			}
		}
	}
	alphabet := govcAlphabet()
	pass(alphabet, bound, 1)
	reduced := govcReducedAlphabet()
	if !failed {
		// only the sequences of full length: the shorter ones are a subset of pass 1
		pass(reduced, bound+1, bound+1)
	}
	t.Logf("GOVC-BOUNDED sequences=%d bound=%d alphabet=%d reducedbound=%d reducedalphabet=%d blocksizes=2,3,8", total, bound, len(alphabet), bound+1, len(reduced))
}
