package main

// Engine: loading of packages, SSA construction, contract association.

import (
	"fmt"
	"go/ast"
	"go/token"
	"go/types"
	"os"
	"path/filepath"
	"sort"
	"strings"

	"golang.org/x/tools/go/packages"
	"golang.org/x/tools/go/ssa"
	"golang.org/x/tools/go/ssa/ssautil"
)

const repoModule = "git.arvados.org/arvados.git"

type Engine struct {
	RepoDir  string
	VerifDir string
	U        *Universe
	Fset     *token.FileSet
	Pkgs     map[string]*packages.Package // by import path (all, incl. deps)
	Prog     *ssa.Program
	Files    []*ContractFile
	// contracts keyed by "<pkgpath>.<normalized name>"
	Contracts map[string]*FuncContract
	SpecFuncs map[string]*SpecFunc // "<pkgpath>.<name>"
	Axioms    []*Axiom
	Lemmas    []*Lemma
	Aliases   map[string]string
	PureFuncs map[string]bool

	// global SMT declarations (UFs etc.), in order
	gdeclNames map[string]bool
	gdecls     []string
	// axioms: text + key symbols
	gaxioms []gaxiom

	fnByName map[string]*ssa.Function

	writeSetMemo map[*ssa.Function]*WriteSet
	Warnings     []string
	Timeout      int // seconds per query
	Seed         int
	Tier         string
	KeepSMT      string // directory to keep smt files of failures
	ScratchDir   string
	Verbose      bool
}

type gaxiom struct {
	text string
	keys []string // included if any key occurs in the query text
	name string
}

func NewEngine(repo, verif string) *Engine {
	return &Engine{RepoDir: repo, VerifDir: verif, U: NewUniverse(), Contracts: map[string]*FuncContract{}, SpecFuncs: map[string]*SpecFunc{},
		Aliases: map[string]string{}, PureFuncs: map[string]bool{}, gdeclNames: map[string]bool{}, fnByName: map[string]*ssa.Function{},
		writeSetMemo: map[*ssa.Function]*WriteSet{}, Pkgs: map[string]*packages.Package{}, Timeout: 10}
}

func (e *Engine) Warn(format string, args ...interface{}) {
	w := fmt.Sprintf(format, args...)
	for _, x := range e.Warnings {
		if x == w {
			return
		}
	}
	e.Warnings = append(e.Warnings, w)
}

func (e *Engine) GDecl(name, decl string) {
	if e.gdeclNames[name] {
		return
	}
	e.gdeclNames[name] = true
	e.gdecls = append(e.gdecls, decl)
}

func (e *Engine) GAxiom(name, text string, keys ...string) {
	for _, a := range e.gaxioms {
		if a.name == name {
			return
		}
	}
	e.gaxioms = append(e.gaxioms, gaxiom{text: text, keys: keys, name: name})
}

// FindContractFiles returns all verif_contracts*.go files under the repo.
func (e *Engine) FindContractFiles() ([]string, error) {
	var out []string
	for _, top := range []string{"sdk/go", "lib", "services", "cmd", "tools"} {
		root := filepath.Join(e.RepoDir, top)
		filepath.Walk(root, func(p string, info os.FileInfo, err error) error {
			if err != nil {
				return nil
			}
			if info.IsDir() {
				if info.Mode()&os.ModeSymlink != 0 {
					return filepath.SkipDir
				}
				return nil
			}
			if strings.HasPrefix(info.Name(), "verif_contracts") && strings.HasSuffix(info.Name(), ".go") {
				out = append(out, p)
			}
			return nil
		})
	}
	sort.Strings(out)
	return out, nil
}

func (e *Engine) LoadContracts() error {
	files, err := e.FindContractFiles()
	if err != nil {
		return err
	}
	for _, f := range files {
		cf, err := ParseContractFile(f)
		if err != nil {
			return err
		}
		dir := filepath.Dir(f)
		rel, _ := filepath.Rel(e.RepoDir, dir)
		cf.PkgDir = rel
		pkgPath := repoModule + "/" + filepath.ToSlash(rel)
		for _, fc := range cf.Funcs {
			fc.PkgDir = rel
			fc.PkgPath = pkgPath
			key := pkgPath + "." + fc.Name
			if fc.Kind != "func" {
				// iface/extern contracts are assumptions made by one package about
				// the code it calls: they are keyed by that package and their
				// display name, and apply only to calls made from that package
				key = pkgPath + "|" + fc.Name
			}
			if e.Contracts[key] != nil {
				return fmt.Errorf("%s:%d: duplicate contract for %s", f, fc.Line, fc.Name)
			}
			e.Contracts[key] = fc
		}
		for _, sf := range cf.Specs {
			sf.PkgPath = pkgPath
			e.SpecFuncs[pkgPath+"."+sf.Name] = sf
		}
		for _, ax := range cf.Axioms {
			ax.PkgPath = pkgPath
			e.Axioms = append(e.Axioms, ax)
		}
		for _, lm := range cf.Lemmas {
			lm.PkgPath = pkgPath
			e.Lemmas = append(e.Lemmas, lm)
		}
		for k, v := range cf.Aliases {
			e.Aliases[k] = v
		}
		for _, p := range cf.Pure {
			e.PureFuncs[p] = true
		}
		e.Files = append(e.Files, cf)
	}
	return nil
}

// PackagesForProperty returns the package dirs (relative) having a function
// contract or lemma tagged with prop.
func (e *Engine) PackagesForProperty(prop string) []string {
	seen := map[string]bool{}
	for _, cf := range e.Files {
		for _, fc := range cf.Funcs {
			if fc.Kind == "func" && hasStr(fc.Props, prop) {
				seen[cf.PkgDir] = true
			}
		}
		for _, lm := range cf.Lemmas {
			if hasStr(lm.Props, prop) {
				seen[cf.PkgDir] = true
			}
		}
	}
	return sortedKeys(seen)
}

func hasStr(xs []string, x string) bool {
	for _, y := range xs {
		if y == x {
			return true
		}
	}
	return false
}

// LoadPackages loads the given package dirs (relative to the repo) with the
// verif tag, and builds SSA in naive form.
func (e *Engine) LoadPackages(dirs []string) error {
	overlay := map[string][]byte{}
	standin := filepath.Join(e.VerifDir, "engine", "standins", "login_pam.go")
	if data, err := os.ReadFile(standin); err == nil {
		overlay[filepath.Join(e.RepoDir, "lib/controller/localdb/login_pam.go")] = data
	}
	cfg := &packages.Config{
		Mode:       packages.LoadAllSyntax,
		Dir:        e.RepoDir,
		BuildFlags: []string{"-tags=verif"},
		Overlay:    overlay,
		Env:        append(os.Environ(), "GOFLAGS=-mod=mod", "GOPROXY=off", "GOSUMDB=off", "GOTOOLCHAIN=local", "CGO_ENABLED=1"),
	}
	var pats []string
	for _, d := range dirs {
		pats = append(pats, "./"+d)
	}
	pkgs, err := packages.Load(cfg, pats...)
	if err != nil {
		return err
	}
	nerr := 0
	packages.Visit(pkgs, nil, func(p *packages.Package) {
		e.Pkgs[p.PkgPath] = p
		if strings.HasPrefix(p.PkgPath, repoModule) {
			for _, er := range p.Errors {
				fmt.Fprintf(os.Stderr, "load error: %s: %v\n", p.PkgPath, er)
				nerr++
			}
		}
	})
	if nerr > 0 {
		return fmt.Errorf("%d load errors in repository packages", nerr)
	}
	if len(pkgs) > 0 {
		e.Fset = pkgs[0].Fset
	}
	prog, _ := ssautil.AllPackages(pkgs, ssa.NaiveForm|ssa.GlobalDebug)
	e.Prog = prog
	// Build only repository packages (dependencies are built lazily when we
	// need the body of a callee, which we normally do not).
	for _, sp := range prog.AllPackages() {
		if strings.HasPrefix(sp.Pkg.Path(), repoModule) {
			sp.Build()
		}
	}
	return e.LoadAxioms()
}

func normFuncName(fn *ssa.Function) string {
	// Closures: parent$N
	if fn.Parent() != nil {
		base := normFuncName(fn.Parent())
		name := fn.Name() // e.g. "balanceBlock$1"
		if i := strings.LastIndex(name, "$"); i >= 0 {
			// nested closures: name is like "f$1$2" relative to the top; ssa names them parent.Name()+"$N"
			return base + name[i:]
		}
		return base + "$" + name
	}
	if recv := fn.Signature.Recv(); recv != nil {
		t := recv.Type()
		if p, ok := t.(*types.Pointer); ok {
			t = p.Elem()
		}
		if n, ok := t.(*types.Named); ok {
			return n.Obj().Name() + "." + fn.Name()
		}
	}
	return fn.Name()
}

// qualifiedName: "<pkgpath>.<normname>"
func qualifiedName(fn *ssa.Function) string {
	p := ""
	if fn.Pkg != nil {
		p = fn.Pkg.Pkg.Path()
	} else if fn.Parent() != nil {
		return qualifiedParent(fn)
	} else if fn.Object() != nil && fn.Object().Pkg() != nil {
		p = fn.Object().Pkg().Path()
	}
	return p + "." + normFuncName(fn)
}

func qualifiedParent(fn *ssa.Function) string {
	top := fn
	for top.Parent() != nil {
		top = top.Parent()
	}
	p := ""
	if top.Pkg != nil {
		p = top.Pkg.Pkg.Path()
	}
	return p + "." + normFuncName(fn)
}

// shortName: "pkgname.Func" or "pkgname.Recv.Method" for display and library tables.
func shortName(fn *ssa.Function) string {
	p := ""
	if fn.Pkg != nil {
		p = fn.Pkg.Pkg.Name()
	} else if fn.Object() != nil && fn.Object().Pkg() != nil {
		p = fn.Object().Pkg().Name()
	}
	return p + "." + normFuncName(fn)
}

// FindFunction locates the SSA function for a contract.
func (e *Engine) FindFunction(fc *FuncContract) *ssa.Function {
	key := fc.PkgPath + "." + fc.Name
	if f, ok := e.fnByName[key]; ok {
		return f
	}
	sp := e.Prog.ImportedPackage(fc.PkgPath)
	if sp == nil {
		return nil
	}
	var visit func(fn *ssa.Function)
	visit = func(fn *ssa.Function) {
		e.fnByName[qualifiedName(fn)] = fn
		for _, a := range fn.AnonFuncs {
			visit(a)
		}
	}
	for _, m := range sp.Members {
		switch mm := m.(type) {
		case *ssa.Function:
			visit(mm)
		case *ssa.Type:
			for _, t := range []types.Type{mm.Type(), types.NewPointer(mm.Type())} {
				ms := e.Prog.MethodSets.MethodSet(t)
				for i := 0; i < ms.Len(); i++ {
					if f := e.Prog.MethodValue(ms.At(i)); f != nil && f.Pkg == sp && f.Synthetic == "" {
						visit(f)
					}
				}
			}
		}
	}
	return e.fnByName[key]
}

func (e *Engine) ContractFor(fn *ssa.Function) *FuncContract {
	return e.ContractForIn(fn, "")
}

// ContractForIn: the contract of fn as seen from package pkgPath (extern
// contracts are per calling package).
func (e *Engine) ContractForIn(fn *ssa.Function, pkgPath string) *FuncContract {
	if fn == nil {
		return nil
	}
	if c := e.Contracts[qualifiedName(fn)]; c != nil {
		return c
	}
	// extern contracts keyed by short display name, e.g. "strings.HasPrefix"
	if pkgPath != "" {
		if c := e.Contracts[pkgPath+"|"+shortName(fn)]; c != nil && c.Kind == "extern" {
			return c
		}
	}
	return nil
}

// Assumed: the iface/extern contract named name declared by package pkgPath.
func (e *Engine) Assumed(pkgPath, name string) *FuncContract {
	if c := e.Contracts[pkgPath+"|"+name]; c != nil && c.Assumed {
		return c
	}
	return nil
}

// fnPkgPath: import path of the package a function (or closure) belongs to.
func fnPkgPath(fn *ssa.Function) string {
	for f := fn; f != nil; f = f.Parent() {
		if f.Pkg != nil && f.Pkg.Pkg != nil {
			return f.Pkg.Pkg.Path()
		}
	}
	return ""
}

// pkgOf returns the loaded package that declares position pos.
func (e *Engine) pkgByPath(path string) *packages.Package { return e.Pkgs[path] }

// funcLits lists for/range statements of a function body in source order,
// excluding those nested in function literals.
func loopStmts(n ast.Node) []ast.Node {
	var out []ast.Node
	if n == nil {
		return nil
	}
	var body ast.Node
	switch f := n.(type) {
	case *ast.FuncDecl:
		body = f.Body
	case *ast.FuncLit:
		body = f.Body
	default:
		return nil
	}
	if body == nil {
		return nil
	}
	ast.Inspect(body, func(x ast.Node) bool {
		switch x.(type) {
		case *ast.FuncLit:
			return false
		case *ast.ForStmt, *ast.RangeStmt:
			out = append(out, x)
		}
		return true
	})
	return out
}
