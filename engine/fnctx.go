package main

// Per-function verification context: environments (incarnations of state
// variables), passive blocks, obligations.

import (
	"fmt"
	"go/token"
	"go/types"
	"sort"
	"strings"

	"golang.org/x/tools/go/ssa"
)

// Env maps state variables to their current incarnation (an SMT constant).
// Heap-like variables that are not explicitly present denote "the value of
// that variable in epoch N", which lets havoc-all be a constant-time
// operation that needs no enumeration of heap maps.
type Env struct {
	inc    map[string]string
	epoch  int
	places map[string]*Place // static aliasing facts: pointer cell -> place it points to
}

func (e *Env) clone() *Env {
	n := &Env{inc: make(map[string]string, len(e.inc)), epoch: e.epoch, places: make(map[string]*Place, len(e.places))}
	for k, v := range e.inc {
		n.inc[k] = v
	}
	for k, v := range e.places {
		n.places[k] = v
	}
	return n
}

type PCmd struct {
	Assert bool
	T      Term
	Ob     *Obligation
	Note   string
}

type PEdge struct {
	From *PBlock
	Cond Term
	Eqs  []Term
}

type PBlock struct {
	ID    int
	Name  string
	Cmds  []PCmd
	Preds []*PEdge
	ssaB  *ssa.BasicBlock
}

type Obligation struct {
	Name    string
	Kind    string
	Func    string
	Desc    string
	Pos     string
	Auto    bool
	Block   *PBlock
	Index   int
	Cond    Term
	Props   []string
	fc      *FnCtx
	Status  string // discharged | failed | unknown | unreachable
	Solver  string
	Ms      int64
	Model   string
	Answers map[string]string
	SMTPath string
	Bounded bool
	Replay  *ReplayResult
}

type pendingEdge struct {
	from *PBlock
	cond Term
	env  *Env
	phis map[*ssa.Phi]Term
}

type LoopInfo struct {
	Header    *ssa.BasicBlock
	Blocks    map[*ssa.BasicBlock]bool
	BackPreds []*ssa.BasicBlock
	Ord       int
	MinPos    token.Pos
	StmtPos   token.Pos // source range of the loop statement
	StmtEnd   token.Pos
	Spec      *LoopSpec
	// recorded at header
	variant    Term
	hasVar     bool
	headerEnv  *Env
	rangeCell  *ssa.Alloc // rangeindex cell (naive form)
	rangeIdx   *ssa.Phi   // rangeindex phi, if any
	rangeLen   ssa.Value  // the len compared against
	rangeNext  *ssa.Next  // map/string iterator
	rangeInstr *ssa.Range // its Range
}

type FnCtx struct {
	allocEvents []*allocEvent
	fieldStoreOrd map[*ssa.Store]int
	eng         *Engine
	fn          *ssa.Function
	contract    *FuncContract
	name        string // display name pkg.Func
	qname       string
	tpkg        *types.Package

	svSort   map[string]Sort
	svHeap   map[string]bool
	nextInc  map[string]int
	declared map[string]bool
	decls    []string
	epochs   int

	vals   map[ssa.Value]Val
	blocks []*PBlock
	pbOf   map[*ssa.BasicBlock]*PBlock
	pend   map[*ssa.BasicBlock][]*pendingEdge

	cur *PBlock
	env *Env

	entryEnv *Env
	loops    map[*ssa.BasicBlock]*LoopInfo
	loopList []*LoopInfo

	obligations []*Obligation
	counters    map[string]int
	fresh       int

	volatile    *WriteSet // active volatile set (nil before any go statement on the path)
	volatileSet *WriteSet
	afterGo     map[*ssa.BasicBlock]bool
	callOrd     map[string]int
	callSites   map[ssa.CallInstruction][]string
	callOrdOf   map[ssa.CallInstruction]map[string]int
	warnings    []string
	assumptions map[string]bool
	abstracted  []string
	ghostTypes  map[string]types.Type
	mapEnums    map[*ssa.Range]*mapEnum
	deferred    []*ssa.Defer
	unsupported int
	safety      map[string]bool
	arith       bool
	localAllocs map[string][]*ssa.Alloc
	closureOf   map[string]*ssa.MakeClosure // cell name -> single MakeClosure stored
	storeOrd    map[*ssa.Store]int
	syncSites   []*ssa.Go
	bounded     int // >0: unroll loops this many times instead of cutting (refutation only)
}

type mapEnum struct {
	ek, eidx string
	n        Term
	dom, val Term
	keyT     types.Type
	valT     types.Type
	iter     string
	isString bool
	str      Term
}

// Val is the translation of an SSA value: a term, a place (for pointers whose
// target is known statically), or a tuple.
type Val struct {
	T     Term
	P     *Place
	Tuple []Term
	TupP  []*Place
	isT   bool
}

func TV(t Term) Val { return Val{T: t, isT: true} }

const (
	PCell = iota
	PHeapField
	PHeapStruct
	PStar
	PElem
	PGlobal
)

type PathStep struct {
	Struct *StructInfo
	Field  int
	Index  *Term // array index
	ElemT  types.Type
}

type Place struct {
	Kind   int
	Var    string
	Ref    Term
	Idx    Term
	Struct *StructInfo
	Path   []PathStep
	Type   types.Type // type of the value stored at the place
	key    string
}

func (p *Place) Key() string {
	if p.key == "" {
		var b strings.Builder
		fmt.Fprintf(&b, "%d|%s|%s|%s", p.Kind, p.Var, p.Ref.S, p.Idx.S)
		for _, s := range p.Path {
			if s.Index != nil {
				fmt.Fprintf(&b, "|[%s]", s.Index.S)
			} else {
				fmt.Fprintf(&b, "|.%d", s.Field)
			}
		}
		p.key = b.String()
	}
	return p.key
}

func (fc *FnCtx) warn(format string, args ...interface{}) {
	w := fc.name + ": " + fmt.Sprintf(format, args...)
	for _, x := range fc.warnings {
		if x == w {
			return
		}
	}
	fc.warnings = append(fc.warnings, w)
}

func (fc *FnCtx) assumeNote(s string) { fc.assumptions[s] = true }

// ------------------------------------------------------------- state variables

func (fc *FnCtx) stateVar(name string, sort Sort, heap bool) {
	if old, ok := fc.svSort[name]; ok {
		if old != sort {
			panic(fmt.Sprintf("state var %s redeclared with sort %s (was %s)", name, sort, old))
		}
		return
	}
	fc.svSort[name] = sort
	fc.svHeap[name] = heap
}

func (fc *FnCtx) declare(name string, sort Sort) {
	if fc.declared[name] {
		return
	}
	fc.declared[name] = true
	fc.decls = append(fc.decls, fmt.Sprintf("(declare-const %s %s)", name, sort))
}

func (fc *FnCtx) lookupIn(env *Env, name string) Term {
	sort, ok := fc.svSort[name]
	if !ok {
		panic("unknown state var " + name)
	}
	if c, ok := env.inc[name]; ok {
		return Term{c, sort}
	}
	c := fmt.Sprintf("%s!e%d", name, env.epoch)
	if !fc.svHeap[name] {
		// local cells, shared cells and ghosts are not affected by heap havoc
		c = name + "!init"
	}
	fc.declare(c, sort)
	return Term{c, sort}
}

func (fc *FnCtx) lookup(name string) Term { return fc.lookupIn(fc.env, name) }

func (fc *FnCtx) newInc(name string) Term {
	sort := fc.svSort[name]
	fc.nextInc[name]++
	c := fmt.Sprintf("%s!%d", name, fc.nextInc[name])
	fc.declare(c, sort)
	return Term{c, sort}
}

func (fc *FnCtx) assign(name string, v Term) {
	c := fc.newInc(name)
	fc.env.inc[name] = c.S
	fc.assume(Eq(c, v))
}

func (fc *FnCtx) havoc(name string) Term {
	c := fc.newInc(name)
	fc.env.inc[name] = c.S
	delete(fc.env.places, name)
	return c
}

func (fc *FnCtx) havocAllHeap() {
	for k := range fc.env.inc {
		if fc.svHeap[k] {
			delete(fc.env.inc, k)
		}
	}
	fc.epochs++
	fc.env.epoch = fc.epochs
	// pointers into the heap recorded statically remain valid as places
	// (a place denotes a location, not a value).
	// The allocation counter only grows.
	old := fc.lookupAllocBefore()
	_ = old
}

func (fc *FnCtx) lookupAllocBefore() Term { return IntLit(0) }

func (fc *FnCtx) freshConst(prefix string, sort Sort) Term {
	fc.fresh++
	c := fmt.Sprintf("%s!f%d", mangle(prefix), fc.fresh)
	fc.declare(c, sort)
	return Term{c, sort}
}

func (fc *FnCtx) assume(t Term) {
	if t.S == "true" {
		return
	}
	fc.cur.Cmds = append(fc.cur.Cmds, PCmd{T: t})
}

func (fc *FnCtx) newBlock(name string) *PBlock {
	b := &PBlock{ID: len(fc.blocks), Name: name}
	fc.blocks = append(fc.blocks, b)
	return b
}

// assert adds a named obligation at the current point and then assumes it.
func (fc *FnCtx) assert(kind string, name string, cond Term, desc string, pos token.Pos, auto bool) *Obligation {
	ob := &Obligation{Name: name, Kind: kind, Func: fc.name, Desc: desc, Auto: auto, Block: fc.cur, Index: len(fc.cur.Cmds), Cond: cond, fc: fc}
	if pos.IsValid() && fc.eng.Fset != nil {
		p := fc.eng.Fset.Position(pos)
		ob.Pos = fmt.Sprintf("%s:%d", relPath(fc.eng.RepoDir, p.Filename), p.Line)
	}
	if fc.contract != nil {
		ob.Props = fc.contract.Props
	}
	fc.cur.Cmds = append(fc.cur.Cmds, PCmd{Assert: true, T: cond, Ob: ob})
	fc.obligations = append(fc.obligations, ob)
	return ob
}

func relPath(base, p string) string {
	if strings.HasPrefix(p, base+"/") {
		return p[len(base)+1:]
	}
	return p
}

func (fc *FnCtx) obName(kind string) string {
	fc.counters[kind]++
	return fmt.Sprintf("%s:%s#%d", fc.name, kind, fc.counters[kind])
}

func (fc *FnCtx) safetyOn(kind string) bool {
	return fc.safety[kind]
}

// --------------------------------------------------------------------- merging

func (fc *FnCtx) mergeEdges(target *PBlock, edges []*pendingEdge, phis []*ssa.Phi) *Env {
	if len(edges) == 0 {
		// unreachable block
		target.Preds = nil
		return &Env{inc: map[string]string{}, epoch: 0, places: map[string]*Place{}}
	}
	keys := map[string]bool{}
	for _, e := range edges {
		for k := range e.env.inc {
			keys[k] = true
		}
	}
	out := &Env{inc: map[string]string{}, places: map[string]*Place{}}
	sameEpoch := true
	for _, e := range edges[1:] {
		if e.env.epoch != edges[0].env.epoch {
			sameEpoch = false
		}
	}
	if sameEpoch {
		out.epoch = edges[0].env.epoch
	} else {
		fc.epochs++
		out.epoch = fc.epochs
	}
	pes := make([]*PEdge, len(edges))
	for i, e := range edges {
		pes[i] = &PEdge{From: e.from, Cond: e.cond}
	}
	ks := make([]string, 0, len(keys))
	for k := range keys {
		ks = append(ks, k)
	}
	sort.Strings(ks)
	for _, k := range ks {
		first := fc.lookupIn(edges[0].env, k)
		same := true
		for _, e := range edges[1:] {
			if fc.lookupIn(e.env, k).S != first.S {
				same = false
				break
			}
		}
		if same {
			out.inc[k] = first.S
			continue
		}
		c := fc.newInc(k)
		out.inc[k] = c.S
		for i, e := range edges {
			pes[i].Eqs = append(pes[i].Eqs, Eq(c, fc.lookupIn(e.env, k)))
		}
	}
	if !sameEpoch {
		// heap variables that are implicit on some edge but were never made
		// explicit anywhere lose their relation to earlier epochs; make the
		// pre-registered heap variables explicit to limit the loss.
		for _, k := range sortedKeys(fc.svHeap) {
			if !fc.svHeap[k] || keys[k] {
				continue
			}
			c := fc.newInc(k)
			out.inc[k] = c.S
			for i, e := range edges {
				pes[i].Eqs = append(pes[i].Eqs, Eq(c, fc.lookupIn(e.env, k)))
			}
		}
	}
	// static places: keep those on which all edges agree
	for k, p := range edges[0].env.places {
		ok := true
		for _, e := range edges[1:] {
			q := e.env.places[k]
			if q == nil || q.Key() != p.Key() {
				ok = false
				break
			}
		}
		if ok {
			out.places[k] = p
		}
	}
	// phis
	for _, phi := range phis {
		name := fc.phiVar(phi)
		c := fc.newInc(name)
		out.inc[name] = c.S
		for i, e := range edges {
			if v, ok := e.phis[phi]; ok {
				pes[i].Eqs = append(pes[i].Eqs, Eq(c, v))
			}
		}
	}
	target.Preds = append(target.Preds, pes...)
	return out
}

func (fc *FnCtx) phiVar(phi *ssa.Phi) string {
	name := "phi_" + phi.Name()
	fc.stateVar(name, fc.eng.U.SortOf(phi.Type()), false)
	return name
}
