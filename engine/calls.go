package main

// Calls: the modular rule (assert pre / havoc frame / assume post), call-site
// clauses, builtins, defers, returns.

import (
	"fmt"
	"os"
	"go/ast"
	"go/token"
	"go/types"
	"sort"
	"strings"

	"golang.org/x/tools/go/ssa"
)

type CallSite struct {
	instr   ssa.CallInstruction
	com     *ssa.CallCommon
	callee  *ssa.Function
	closure *ssa.MakeClosure
	keys    []string
	recv    *Term
	args    []Term // explicit arguments
	argVals []ssa.Value
	recvVal ssa.Value
	pos     token.Pos
	results []Term
	resT    []types.Type
	display string
}

// resolveCallee finds the statically known target of a call, including calls
// through a local variable that only ever holds one function literal.
func (fc *FnCtx) resolveCallee(c ssa.CallInstruction) *ssa.Function {
	com := c.Common()
	if com.IsInvoke() {
		return nil
	}
	if f := com.StaticCallee(); f != nil {
		return f
	}
	if mc := fc.resolveClosure(com.Value); mc != nil {
		return mc.Fn.(*ssa.Function)
	}
	// call through a package-level function variable that is initialised once
	// with a function and never reassigned (e.g. keepclient.SignLocator = arvados.SignLocator)
	if ld, ok := com.Value.(*ssa.UnOp); ok && ld.Op == token.MUL {
		if g, ok := ld.X.(*ssa.Global); ok {
			if f := fc.eng.funcAlias(g); f != nil {
				return f
			}
		}
	}
	return nil
}

var funcAliasMemo = map[*ssa.Global]*ssa.Function{}

func (e *Engine) funcAlias(g *ssa.Global) *ssa.Function {
	if f, ok := funcAliasMemo[g]; ok {
		return f
	}
	funcAliasMemo[g] = nil
	if e.assignedOutsideInit(g) {
		return nil
	}
	init := g.Pkg.Func("init")
	if init == nil {
		return nil
	}
	var found *ssa.Function
	n := 0
	for _, b := range init.Blocks {
		for _, in := range b.Instrs {
			if st, ok := in.(*ssa.Store); ok && st.Addr == g {
				n++
				if f, ok := st.Val.(*ssa.Function); ok {
					found = f
				}
			}
		}
	}
	if n == 1 && found != nil {
		funcAliasMemo[g] = found
	}
	return funcAliasMemo[g]
}

func (fc *FnCtx) resolveClosure(v ssa.Value) *ssa.MakeClosure {
	switch x := v.(type) {
	case *ssa.MakeClosure:
		return x
	case *ssa.UnOp:
		a, ok := x.X.(*ssa.Alloc)
		if !ok || x.Op != token.MUL {
			return nil
		}
		var found *ssa.MakeClosure
		n := 0
		for _, b := range a.Parent().Blocks {
			for _, in := range b.Instrs {
				if st, ok := in.(*ssa.Store); ok && st.Addr == a {
					n++
					if mc, ok := st.Val.(*ssa.MakeClosure); ok {
						found = mc
					}
				}
			}
		}
		if n == 1 && found != nil {
			return found
		}
	}
	return nil
}

func typeShort(t types.Type) string {
	if p, ok := t.(*types.Pointer); ok {
		t = p.Elem()
	}
	if n, ok := t.(*types.Named); ok {
		if n.Obj().Pkg() != nil {
			return n.Obj().Pkg().Name() + "." + n.Obj().Name()
		}
		return n.Obj().Name()
	}
	return types.TypeString(t, func(p *types.Package) string { return p.Name() })
}

func (fc *FnCtx) calleeKeys(c ssa.CallInstruction, callee *ssa.Function) []string {
	com := c.Common()
	var keys []string
	add := func(k string) {
		if k == "" {
			return
		}
		for _, x := range keys {
			if x == k {
				return
			}
		}
		keys = append(keys, k)
	}
	if com.IsInvoke() {
		m := com.Method
		it := typeShort(com.Value.Type())
		add(it + "." + m.Name())
		if i := strings.LastIndex(it, "."); i >= 0 {
			add(it[i+1:] + "." + m.Name())
		}
		// declaring interface
		if recv := m.Type().(*types.Signature).Recv(); recv != nil {
			dt := typeShort(recv.Type())
			add(dt + "." + m.Name())
		}
		add("." + m.Name())
	} else if callee != nil {
		add(shortName(callee))
		add(normFuncName(callee))
	} else if b, ok := com.Value.(*ssa.Builtin); ok {
		add(b.Name())
	}
	// source text of the called expression
	if src := fc.callSource(c); src != "" {
		add(src)
	}
	return keys
}

var callExprMemo = map[*ssa.Function]map[token.Pos]*ast.CallExpr{}

func (fc *FnCtx) callSource(c ssa.CallInstruction) string {
	fn := c.Parent()
	m, ok := callExprMemo[fn]
	if !ok {
		m = map[token.Pos]*ast.CallExpr{}
		if syn := fn.Syntax(); syn != nil {
			ast.Inspect(syn, func(n ast.Node) bool {
				if ce, ok := n.(*ast.CallExpr); ok {
					m[ce.Lparen] = ce
				}
				return true
			})
		}
		callExprMemo[fn] = m
	}
	pos := c.Pos()
	if ce, ok := m[pos]; ok {
		return types.ExprString(ce.Fun)
	}
	// go/defer statements report the position of the keyword
	switch c.(type) {
	case *ssa.Go, *ssa.Defer:
		com := c.Common()
		if ce, ok := m[com.Pos()]; ok {
			return types.ExprString(ce.Fun)
		}
	}
	return ""
}

// call ordinals per key, in source order
func (fc *FnCtx) computeCallOrdinals() {
	var calls []ssa.CallInstruction
	for _, b := range fc.fn.Blocks {
		for _, in := range b.Instrs {
			if c, ok := in.(ssa.CallInstruction); ok {
				calls = append(calls, c)
			}
		}
	}
	sort.SliceStable(calls, func(i, j int) bool {
		pi, pj := calls[i].Common().Pos(), calls[j].Common().Pos()
		if pi == 0 {
			pi = calls[i].Pos()
		}
		if pj == 0 {
			pj = calls[j].Pos()
		}
		return pi < pj
	})
	cnt := map[string]int{}
	for _, c := range calls {
		keys := fc.calleeKeys(c, fc.resolveCallee(c))
		m := map[string]int{}
		for _, k := range keys {
			cnt[k]++
			m[k] = cnt[k]
		}
		fc.callOrdOf[c] = m
	}
}

func (fc *FnCtx) siteSpecs(c ssa.CallInstruction) []*CallSpec {
	if fc.contract == nil || len(fc.contract.Calls) == 0 {
		return nil
	}
	if len(fc.callOrdOf) == 0 {
		fc.computeCallOrdinals()
	}
	ords := fc.callOrdOf[c]
	var out []*CallSpec
	for _, cs := range fc.contract.Calls {
		if o, ok := ords[cs.Callee]; ok && (cs.Ord == 0 || cs.Ord == o) {
			out = append(out, cs)
		}
	}
	return out
}

func (fc *FnCtx) buildSite(c ssa.CallInstruction) *CallSite {
	com := c.Common()
	s := &CallSite{instr: c, com: com, pos: com.Pos()}
	if !s.pos.IsValid() {
		s.pos = c.Pos()
	}
	s.callee = fc.resolveCallee(c)
	if com.StaticCallee() == nil && !com.IsInvoke() {
		s.closure = fc.resolveClosure(com.Value)
	} else if mc, ok := com.Value.(*ssa.MakeClosure); ok {
		s.closure = mc
	}
	s.keys = fc.calleeKeys(c, s.callee)
	if len(s.keys) > 0 {
		s.display = s.keys[0]
	} else {
		s.display = "dynamic"
	}
	args := com.Args
	if com.IsInvoke() {
		t := fc.term(com.Value)
		s.recv = &t
		s.recvVal = com.Value
	} else if s.callee != nil && s.callee.Signature.Recv() != nil && len(args) > 0 {
		t := fc.term(args[0])
		s.recv = &t
		s.recvVal = args[0]
		args = args[1:]
	}
	for _, a := range args {
		s.args = append(s.args, fc.term(a))
		s.argVals = append(s.argVals, a)
	}
	res := com.Signature().Results()
	for i := 0; i < res.Len(); i++ {
		s.resT = append(s.resT, res.At(i).Type())
	}
	return s
}

func (fc *FnCtx) freshResults(s *CallSite) {
	u := fc.eng.U
	s.results = nil
	for i, t := range s.resT {
		r := fc.freshConst(fmt.Sprintf("ret%d_%s", i, s.display), u.SortOf(t))
		fc.assume(fc.typeFacts(t, r, 1))
		s.results = append(s.results, r)
	}
}

func (fc *FnCtx) setCallValue(c ssa.CallInstruction, s *CallSite) {
	v, ok := c.(ssa.Value)
	if !ok {
		return
	}
	switch len(s.resT) {
	case 0:
		fc.vals[v] = Val{Tuple: []Term{}}
	case 1:
		fc.vals[v] = TV(s.results[0])
	default:
		fc.vals[v] = Val{Tuple: s.results}
	}
}

func (fc *FnCtx) siteScope(s *CallSite, env, old *Env) *Scope {
	sc := fc.funcScope(env, old, nil)
	sc.pos = s.pos
	sc.mode = "site"
	sc.extra = map[string]specVal{}
	if s.recv != nil {
		sc.extra["$recv"] = specVal{t: *s.recv, ty: s.recvVal.Type()}
	}
	for i, a := range s.args {
		sc.extra[fmt.Sprintf("$%d", i)] = specVal{t: a, ty: s.argVals[i].Type()}
	}
	for i, r := range s.results {
		sc.extra[fmt.Sprintf("$r%d", i)] = specVal{t: r, ty: s.resT[i]}
		if i == 0 {
			sc.extra["$r"] = specVal{t: r, ty: s.resT[i]}
		}
	}
	return sc
}

func (fc *FnCtx) doCall(x *ssa.Call) {
	com := x.Common()
	if b, ok := com.Value.(*ssa.Builtin); ok {
		if len(fc.siteSpecs(x)) == 0 {
			if fc.doBuiltin(x, b) {
				return
			}
		}
	}
	s := fc.buildSite(x)
	specs := fc.siteSpecs(x)
	fc.checkAllowed(x, s)
	pre := fc.env.clone()
	ord := 0
	for _, cs := range specs {
		cs.Matched++
		if o := fc.callOrdOf[x][cs.Callee]; o > 0 {
			ord = o
		}
		if len(cs.Requires) > 0 {
			sc := fc.siteScope(s, fc.env, fc.entryEnv)
			for _, r := range cs.Requires {
				name := fmt.Sprintf("%s:call(%s)#%d.requires#%d", fc.name, cs.Callee, fc.callOrdOf[x][cs.Callee], r.N)
				fc.assert("call-requires", name, sc.trBool(r.E), r.Src, s.pos, false)
			}
		}
	}
	_ = ord
	pure := false
	for _, cs := range specs {
		if cs.Pure {
			pure = true
		}
	}
	if b, ok := com.Value.(*ssa.Builtin); ok && fc.doBuiltin(x, b) {
		if v := fc.vals[x]; v.isT {
			s.results = []Term{v.T}
		}
	} else {
		fc.dispatchCall(s, pure)
		fc.setCallValue(x, s)
	}
	for _, cs := range specs {
		if len(cs.Ensures) > 0 || len(cs.Sets) > 0 {
			sc := fc.siteScope(s, fc.env, pre)
			for _, r := range cs.Ensures {
				fc.assume(sc.trBool(r.E))
				fc.assumeNote(fmt.Sprintf("assumed at call %s#%d in %s: %s", cs.Callee, cs.Ord, fc.name, r.Src))
			}
			for _, st := range cs.Sets {
				t, _ := sc.tr(st.E)
				if _, ok := fc.ghostTypes[st.Name]; !ok {
					fc.fail("set of undeclared ghost %s", st.Name)
				}
				fc.assign("g_"+st.Name, t)
			}
		}
	}
}

// dispatchCall applies the model of the callee and fills s.results.
func (fc *FnCtx) dispatchCall(s *CallSite, pure bool) {
	// 1. contract on a function of the repository
	if s.callee != nil {
		if ct := fc.eng.ContractForIn(s.callee, fnPkgPath(fc.fn)); ct != nil {
			fc.applyContract(s, ct, s.callee)
			return
		}
	}
	// 2. assumed interface/extern contracts, library models
	for _, k := range s.keys {
		if ct := fc.eng.Assumed(fnPkgPath(fc.fn), k); ct != nil {
			fc.applyContract(s, ct, nil)
			return
		}
	}
	for _, k := range s.keys {
		if h, ok := libModels[k]; ok {
			if h(fc, s) {
				return
			}
		}
	}
	for _, k := range s.keys {
		if eff, ok := libEffects(k); ok {
			for _, n := range eff {
				if n == "*" {
					fc.havocHeap()
				} else if n != "" {
					fc.havoc(fc.libStateVar(n))
				}
			}
			fc.freshResults(s)
			fc.pureResults(s, k)
			return
		}
		if fc.eng.PureFuncs[k] {
			fc.freshResults(s)
			fc.pureResults(s, k)
			return
		}
	}
	if pure {
		fc.freshResults(s)
		return
	}
	// 3. function of the repository without a contract: havoc its write set
	if s.callee != nil && len(s.callee.Blocks) > 0 && strings.HasPrefix(qualifiedName(s.callee), repoModule) {
		ws := fc.funcWrites(s.callee, 0)
		if os.Getenv("GOVC_DEBUG") != "" {
			fmt.Fprintf(os.Stderr, "DEBUG writes of %s: all=%v %v\n", s.display, ws.All, ws.sorted())
		}
		fc.applyWriteSet(ws)
		fc.freshResults(s)
		fc.eng.noteUncontracted(fc.name, s.display)
		return
	}
	// 4. unknown
	fc.eng.noteUnknownCall(fc.name, s.display)
	fc.havocHeap()
	fc.freshResults(s)
}

var uncontracted = map[string]bool{}
var unknownCalls = map[string]bool{}

func (e *Engine) noteUncontracted(fn, callee string) { uncontracted[fn+" -> "+callee] = true }
func (e *Engine) noteUnknownCall(fn, callee string)  { unknownCalls[fn+" -> "+callee] = true }

func (fc *FnCtx) applyWriteSet(ws *WriteSet) {
	if ws.All {
		keep := map[string]Term{}
		for k := range ws.Except {
			if _, ok := fc.svSort[k]; ok {
				keep[k] = fc.lookup(k)
			}
		}
		fc.havocHeap()
		for _, k := range sortedKeys(keep) {
			fc.env.inc[k] = keep[k].S
		}
	}
	allocPre := fc.lookup("alloc")
	for _, n := range ws.sorted() {
		if ws.Fresh[n] && !ws.All {
			if _, ok := fc.svSort[n]; !ok {
				// first met through the callee's body: register it here
				if srt, ok := ws.Sorts[n]; ok {
					fc.stateVar(n, srt, true)
				}
			}
			if _, ok := fc.svSort[n]; ok && strings.HasPrefix(string(fc.svSort[n]), "(Array Int ") {
				old := fc.lookup(n)
				nw := fc.havoc(n)
				fc.assume(T(SBool, "(forall ((a Int)) (! (=> (<= a %s) (= (select %s a) (select %s a))) :pattern ((select %s a))))", allocPre.S, nw.S, old.S, nw.S))
				continue
			}
		}
		if n == "alloc" {
			old := fc.lookup("alloc")
			nw := fc.havoc("alloc")
			fc.assume(T(SBool, "(>= %s %s)", nw.S, old.S))
			continue
		}
		if _, ok := fc.svSort[n]; !ok {
			if s, ok := ws.Sorts[n]; ok {
				fc.stateVar(n, s, true)
			} else {
				continue
			}
		}
		fc.havoc(n)
	}
}

// pureResults makes results of a side-effect free library function a
// function of its arguments (determinism).
func (fc *FnCtx) pureResults(s *CallSite, key string) {
	if !libDeterministic(key) {
		return
	}
	u := fc.eng.U
	var as []Term
	if s.recv != nil {
		as = append(as, *s.recv)
	}
	as = append(as, s.args...)
	for i, t := range s.resT {
		name := fmt.Sprintf("uf_%s_%d", mangle(key), i)
		var sorts []string
		for _, a := range as {
			sorts = append(sorts, string(a.Sort))
		}
		fc.eng.GDecl(name, fmt.Sprintf("(declare-fun %s (%s) %s)", name, strings.Join(sorts, " "), u.SortOf(t)))
		fc.assume(Eq(s.results[i], App(u.SortOf(t), name, as...)))
	}
}

// applyContract: the modular rule.
func (fc *FnCtx) applyContract(s *CallSite, ct *FuncContract, callee *ssa.Function) {
	pre := fc.env.clone()
	bind := fc.contractBindings(s, ct, callee)
	ord := fc.callOrdOf[s.instr]
	o := 0
	for _, k := range s.keys {
		if v, ok := ord[k]; ok {
			o = v
			break
		}
	}
	if len(ord) == 0 {
		fc.computeCallOrdinals()
		for _, k := range s.keys {
			if v, ok := fc.callOrdOf[s.instr][k]; ok {
				o = v
				break
			}
		}
	}
	sc := fc.calleeScope(ct, callee, fc.env, pre, bind)
	for _, r := range ct.Requires {
		name := fmt.Sprintf("%s:call(%s)#%d.pre#%d", fc.name, s.display, o, r.N)
		fc.assert("call-pre", name, sc.trBool(r.E), "precondition of "+ct.Name+": "+r.Src, s.pos, false)
	}
	// frame
	ws := newWS()
	ws.add("alloc")
	if ct.HasMod {
		fc.modifiesToWS(ct, ws)
		if callee != nil && len(callee.Blocks) > 0 {
			body := fc.funcWrites(callee, 0)
			for _, n := range body.sorted() {
				if !ws.Names[n] {
					ws.add(n)
					ws.Fresh[n] = true
					if srt, ok := body.Sorts[n]; ok {
						ws.Sorts[n] = srt
					}
				}
			}
		}
	} else if ct.Flags["pure"] {
	} else if callee != nil && len(callee.Blocks) > 0 {
		ws.union(fc.funcWrites(callee, 0))
	} else {
		ws.All = true
	}
	var elemSnap []struct {
		mem string
		old Term
		sl  Term
	}
	for _, pn := range ws.ElemsOf {
		bv, ok := bind[pn]
		if !ok {
			fc.fail("modifies elems(%s): no such slice parameter in contract of %s", pn, ct.Name)
		}
		if bv.p != nil {
			bv = specVal{t: fc.loadPlaceIn(fc.env, bv.p), ty: bv.ty}
		}
		st, isSlice := bv.ty.Underlying().(*types.Slice)
		if !isSlice {
			fc.fail("modifies elems(%s): not a slice", pn)
		}
		mem := fc.memVar(st.Elem())
		elemSnap = append(elemSnap, struct {
			mem string
			old Term
			sl  Term
		}{mem, fc.lookup(mem), bv.t})
		ws.add(mem)
	}
	fc.applyWriteSet(ws)
	for _, es := range elemSnap {
		now := fc.lookup(es.mem)
		// other arrays unchanged; inside the slice's array only [off, off+len) may change
		fc.assume(T(SBool, "(forall ((a Int)) (! (=> (not (= a (s_arr %[1]s))) (= (select %[2]s a) (select %[3]s a))) :pattern ((select %[2]s a))))", es.sl.S, now.S, es.old.S))
		fc.assume(T(SBool, "(forall ((j Int)) (! (=> (or (< j (s_off %[1]s)) (>= j (+ (s_off %[1]s) (s_len %[1]s)))) (= (select (select %[2]s (s_arr %[1]s)) j) (select (select %[3]s (s_arr %[1]s)) j))) :pattern ((select (select %[2]s (s_arr %[1]s)) j))))", es.sl.S, now.S, es.old.S))
	}
	fc.freshResults(s)
	for i, r := range s.results {
		bind[fmt.Sprintf("$r%d", i)] = specVal{t: r, ty: s.resT[i]}
	}
	// named results
	var sig *types.Signature
	if callee != nil {
		sig = callee.Signature
	} else {
		sig = s.com.Signature()
	}
	for i := 0; i < sig.Results().Len() && i < len(s.results); i++ {
		if n := sig.Results().At(i).Name(); n != "" && n != "_" {
			bind[n] = specVal{t: s.results[i], ty: s.resT[i]}
		}
	}
	if len(s.results) > 0 {
		bind["result"] = specVal{t: s.results[0], ty: s.resT[0]}
	}
	for i := range s.results {
		bind[fmt.Sprintf("result%d", i)] = specVal{t: s.results[i], ty: s.resT[i]}
	}
	sc2 := fc.calleeScope(ct, callee, fc.env, pre, bind)
	ghostNames := map[string]bool{}
	for _, g := range ct.Ghosts {
		ghostNames[g.Name] = true
	}
	for _, r := range ct.Ensures {
		if len(ghostNames) > 0 && mentions(r.E, ghostNames) {
			continue // clauses over the callee's ghost state are internal to its proof
		}
		// clauses that mention locals of the callee are internal as well
		if t, ok := fc.tryTrBool(sc2, r.E); ok {
			fc.assume(t)
		}
	}
	if ct.Flags["pure"] && callee == nil {
		// assumed pure interface method / external function: deterministic in its arguments
		var as []Term
		var sorts []string
		if s.recv != nil {
			as = append(as, *s.recv)
		}
		as = append(as, s.args...)
		for _, a := range as {
			sorts = append(sorts, string(a.Sort))
		}
		for i, r := range s.results {
			name := fmt.Sprintf("pi_%s_%d", mangle(ct.Name), i)
			fc.eng.GDecl(name, fmt.Sprintf("(declare-fun %s (%s) %s)", name, strings.Join(sorts, " "), r.Sort))
			fc.assume(Eq(r, App(r.Sort, name, as...)))
		}
	}
	if ct.Flags["pure"] && callee != nil {
		var as []Term
		if s.recv != nil {
			as = append(as, *s.recv)
		}
		as = append(as, s.args...)
		for i, r := range s.results {
			uf, rs := fc.eng.pureUF(callee, i)
			fc.assume(Eq(r, App(rs, uf, as...)))
		}
		fc.assumeNote("function " + ct.Name + " is pure: its result is a function of its arguments (no reads of mutable memory)")
	}
	if ct.Assumed {
		fc.assumeNote("assumed contract of " + ct.Name)
	}
	if ct.Flags["trusted"] {
		fc.assumeNote("trusted (unverified) contract of " + ct.Name)
	}
	if ct.Flags["trustedframe"] {
		fc.assumeNote("trusted (unverified) frame condition of " + ct.Name + " (its other clauses are verified)")
	}
}

func (fc *FnCtx) contractBindings(s *CallSite, ct *FuncContract, callee *ssa.Function) map[string]specVal {
	bind := map[string]specVal{}
	if callee != nil {
		params := callee.Params
		i := 0
		if callee.Signature.Recv() != nil && len(params) > 0 && s.recv != nil {
			bind[params[0].Name()] = specVal{t: *s.recv, ty: params[0].Type()}
			params = params[1:]
		}
		for _, p := range params {
			if i < len(s.args) {
				bind[p.Name()] = specVal{t: s.args[i], ty: p.Type()}
			}
			i++
		}
		// captured variables of a closure
		if s.closure != nil {
			for j, fv := range callee.FreeVars {
				b := s.closure.Bindings[j]
				bv := fc.value(b)
				et := fv.Type().Underlying().(*types.Pointer).Elem()
				if bv.P != nil {
					bind[fv.Name()] = specVal{p: bv.P, ty: et}
				} else {
					bind[fv.Name()] = specVal{p: fc.placeOfPtr(bv.T, et), ty: et}
				}
			}
		}
		return bind
	}
	sig := s.com.Signature()
	if s.recv != nil {
		bind["self"] = specVal{t: *s.recv, ty: s.recvVal.Type()}
	}
	for i := 0; i < sig.Params().Len() && i < len(s.args); i++ {
		n := sig.Params().At(i).Name()
		if n == "" || n == "_" {
			n = fmt.Sprintf("a%d", i)
		}
		bind[n] = specVal{t: s.args[i], ty: sig.Params().At(i).Type()}
		bind[fmt.Sprintf("$%d", i)] = specVal{t: s.args[i], ty: sig.Params().At(i).Type()}
	}
	return bind
}

// ------------------------------------------------------------------- builtins

func (fc *FnCtx) doBuiltin(x *ssa.Call, b *ssa.Builtin) bool {
	u := fc.eng.U
	args := x.Call.Args
	switch b.Name() {
	case "len":
		fc.vals[x] = TV(fc.lenOf(args[0].Type(), fc.term(args[0]), fc.env))
		if mt, ok := args[0].Type().Underlying().(*types.Map); ok {
			// cardinality facts: len >= 0, and an empty map has no keys
			m := fc.term(args[0])
			dom, _, ln := fc.mapVars(mt)
			n := Select(fc.lookup(ln), m)
			ks := fc.eng.U.SortOf(mt.Key())
			fc.assume(T(SBool, "(>= %s 0)", n.S))
			fc.assume(T(SBool, "(=> (= %s 0) (forall ((k %s)) (! (not (select %s k)) :pattern ((select %s k)))))", n.S, ks, Select(fc.lookup(dom), m).S, Select(fc.lookup(dom), m).S))
		}
		return true
	case "cap":
		switch args[0].Type().Underlying().(type) {
		case *types.Slice:
			fc.vals[x] = TV(T(SInt, "(s_cap %s)", fc.term(args[0]).S))
		case *types.Chan:
			fc.eng.GDecl("chancap", "(declare-fun chancap (Int) Int)")
			fc.vals[x] = TV(T(SInt, "(chancap %s)", fc.term(args[0]).S))
		default:
			fc.vals[x] = TV(fc.freshConst("cap", SInt))
		}
		return true
	case "append":
		fc.doAppend(x)
		return true
	case "copy":
		fc.doCopy(x)
		return true
	case "delete":
		mt := args[0].Type().Underlying().(*types.Map)
		k := fc.term(args[1])
		if _, isIface := mt.Key().Underlying().(*types.Interface); isIface {
			k = fc.box(args[1].Type(), k)
		}
		fc.mapDelete(mt, fc.term(args[0]), k)
		fc.vals[x] = Val{Tuple: []Term{}}
		return true
	case "close", "print", "println":
		fc.vals[x] = Val{Tuple: []Term{}}
		return true
	case "ssa:deferstack":
		fc.vals[x] = TV(IntLit(0))
		return true
	case "ssa:wrapnilchk":
		fc.vals[x] = fc.value(args[0])
		return true
	case "min", "max":
		a, bb := fc.term(args[0]), fc.term(args[1])
		op := "<="
		if b.Name() == "max" {
			op = ">="
		}
		fc.vals[x] = TV(T(a.Sort, "(ite (%s %s %s) %s %s)", op, a.S, bb.S, a.S, bb.S))
		return true
	case "recover":
		fc.vals[x] = TV(fc.freshConst("recover", u.SortOf(x.Type())))
		return true
	}
	return false
}

func (fc *FnCtx) lenOf(t types.Type, v Term, env *Env) Term {
	switch tt := t.Underlying().(type) {
	case *types.Slice:
		return T(SInt, "(s_len %s)", v.S)
	case *types.Basic:
		return T(SInt, "(str.len %s)", v.S)
	case *types.Map:
		_, _, ln := fc.mapVars(tt)
		return T(SInt, "(ite (= %s 0) 0 %s)", v.S, Select(fc.lookupIn(env, ln), v).S)
	case *types.Array:
		return IntLit(tt.Len())
	case *types.Pointer:
		if at, ok := tt.Elem().Underlying().(*types.Array); ok {
			return IntLit(at.Len())
		}
	case *types.Chan:
		r := fc.freshConst("chanlen", SInt)
		fc.assume(T(SBool, "(>= %s 0)", r.S))
		return r
	}
	fc.fail("len of %s", t)
	return Term{}
}

// constArrayArg recognises the variadic packing "new [k]T (varargs)[:]".
func constArrayLen(v ssa.Value) (int64, bool) {
	sl, ok := v.(*ssa.Slice)
	if !ok || sl.Low != nil || sl.High != nil {
		return 0, false
	}
	a, ok := sl.X.(*ssa.Alloc)
	if !ok {
		return 0, false
	}
	at, ok := a.Type().Underlying().(*types.Pointer).Elem().Underlying().(*types.Array)
	if !ok {
		return 0, false
	}
	return at.Len(), true
}

func (fc *FnCtx) doAppend(x *ssa.Call) {
	u := fc.eng.U
	args := x.Call.Args
	st := args[0].Type().Underlying().(*types.Slice)
	es := u.SortOf(st.Elem())
	s := fc.term(args[0])
	mem := fc.memVar(st.Elem())
	m0 := fc.lookup(mem)
	var n Term
	var srcAt func(i string) string
	if _, isStr := args[1].Type().Underlying().(*types.Basic); isStr {
		str := fc.term(args[1])
		n = T(SInt, "(str.len %s)", str.S)
		srcAt = func(i string) string { return fmt.Sprintf("(str.to_code (str.at %s %s))", str.S, i) }
	} else {
		t := fc.term(args[1])
		n = T(SInt, "(s_len %s)", t.S)
		srcAt = func(i string) string {
			return fmt.Sprintf("(select (select %s (s_arr %s)) (ix (s_off %s) %s))", m0.S, t.S, t.S, i)
		}
		fc.eng.ixDecl()
	}
	k, isConst := constArrayLen(args[1])
	newArr := fc.newRef()
	newCap := fc.freshConst("appcap", SInt)
	fits := T(SBool, "(<= (+ (s_len %s) %s) (s_cap %s))", s.S, n.S, s.S)
	rarr := Ite(fits, T(SInt, "(s_arr %s)", s.S), newArr)
	roff := Ite(fits, T(SInt, "(s_off %s)", s.S), IntLit(0))
	rcap := Ite(fits, T(SInt, "(s_cap %s)", s.S), newCap)
	fc.assume(T(SBool, "(>= %s (+ (s_len %s) %s))", newCap.S, s.S, n.S))
	row := fc.freshConst("approw", ArraySort(SInt, es))
	oldRow := Select(m0, T(SInt, "(s_arr %s)", s.S))
	base := T(SInt, "(+ %s (s_len %s))", roff.S, s.S)
	// appended elements
	if isConst && k <= 4 {
		for i := int64(0); i < k; i++ {
			fc.assume(T(SBool, "(= (select %s (+ %s %d)) %s)", row.S, base.S, i, srcAt(fmt.Sprint(i))))
		}
	} else {
		fc.assume(T(SBool, "(forall ((j Int)) (! (=> (and (<= %[1]s j) (< j (+ %[1]s %[2]s))) (= (select %[3]s j) %[4]s)) :pattern ((select %[3]s j))))", base.S, n.S, row.S, srcAt("(- j "+base.S+")")))
	}
	// preserved elements
	fc.assume(T(SBool, "(=> %s (forall ((j Int)) (! (=> (or (< j %s) (>= j (+ %s %s))) (= (select %s j) (select %s j))) :pattern ((select %s j)))))",
		fits.S, base.S, base.S, n.S, row.S, oldRow.S, row.S))
	fc.eng.ixDecl()
	fc.assume(T(SBool, "(=> (not %s) (forall ((j Int)) (! (=> (and (<= 0 j) (< j (s_len %s))) (= (select %s j) (select %s (ix (s_off %s) j)))) :pattern ((select %s j)))))",
		fits.S, s.S, row.S, oldRow.S, s.S, row.S))
	fc.assign(mem, Store(m0, rarr, row))
	res := fc.freshConst("app", SSlice)
	fc.assume(Eq(res, T(SSlice, "(mkslice %s %s (+ (s_len %s) %s) %s)", rarr.S, roff.S, s.S, n.S, rcap.S)))
	fc.vals[x] = TV(res)
}

func (fc *FnCtx) doCopy(x *ssa.Call) {
	u := fc.eng.U
	args := x.Call.Args
	dt := args[0].Type().Underlying().(*types.Slice)
	es := u.SortOf(dt.Elem())
	d := fc.term(args[0])
	mem := fc.memVar(dt.Elem())
	m0 := fc.lookup(mem)
	var n Term
	var srcAt func(i string) string
	if _, isStr := args[1].Type().Underlying().(*types.Basic); isStr {
		str := fc.term(args[1])
		n = T(SInt, "(ite (<= (s_len %[1]s) (str.len %[2]s)) (s_len %[1]s) (str.len %[2]s))", d.S, str.S)
		srcAt = func(i string) string { return fmt.Sprintf("(str.to_code (str.at %s %s))", str.S, i) }
	} else {
		t := fc.term(args[1])
		n = T(SInt, "(ite (<= (s_len %[1]s) (s_len %[2]s)) (s_len %[1]s) (s_len %[2]s))", d.S, t.S)
		srcAt = func(i string) string {
			return fmt.Sprintf("(select (select %s (s_arr %s)) (ix (s_off %s) %s))", m0.S, t.S, t.S, i)
		}
		fc.eng.ixDecl()
	}
	nn := fc.freshConst("copyn", SInt)
	fc.assume(Eq(nn, n))
	row := fc.freshConst("copyrow", ArraySort(SInt, es))
	oldRow := Select(m0, T(SInt, "(s_arr %s)", d.S))
	fc.assume(T(SBool, "(forall ((j Int)) (! (=> (and (<= (s_off %[1]s) j) (< j (+ (s_off %[1]s) %[2]s))) (= (select %[3]s j) %[4]s)) :pattern ((select %[3]s j))))", d.S, nn.S, row.S, srcAt("(- j (s_off "+d.S+"))")))
	fc.assume(T(SBool, "(forall ((j Int)) (! (=> (or (< j (s_off %[1]s)) (>= j (+ (s_off %[1]s) %[2]s))) (= (select %[3]s j) (select %[4]s j))) :pattern ((select %[3]s j))))", d.S, nn.S, row.S, oldRow.S))
	fc.assign(mem, Store(m0, T(SInt, "(s_arr %s)", d.S), row))
	fc.vals[x] = TV(nn)
}

// ------------------------------------------------------------ go/defer/return

func (fc *FnCtx) doRunDefers(x *ssa.RunDefers) {
	// deferred calls in reverse registration order (approximated by source order)
	var defs []*ssa.Defer
	for _, b := range fc.fn.Blocks {
		for _, in := range b.Instrs {
			if d, ok := in.(*ssa.Defer); ok {
				defs = append(defs, d)
			}
		}
	}
	sort.Slice(defs, func(i, j int) bool { return defs[i].Pos() > defs[j].Pos() })
	for _, d := range defs {
		if !blockReaches(d.Block(), x.Block()) {
			continue // this defer statement cannot have executed on a path to this return
		}
		registered := d.Block().Dominates(x.Block())
		inLoop := false
		for _, li := range fc.loopList {
			if li.Blocks[d.Block()] {
				inLoop = true
			}
		}
		// call-site clauses of the contract apply to deferred calls where they
		// run, i.e. here (arguments were evaluated at the defer statement)
		specs := fc.siteSpecs(d)
		var site *CallSite
		var pre *Env
		certain := registered && !inLoop
		if len(specs) > 0 {
			site = fc.buildSite(d)
			pre = fc.env.clone()
			for _, cs := range specs {
				cs.Matched++
				if !certain || len(cs.Requires) == 0 {
					continue
				}
				sc := fc.siteScope(site, fc.env, fc.entryEnv)
				for _, r := range cs.Requires {
					name := fmt.Sprintf("%s:call(%s)#%d.requires#%d", fc.name, cs.Callee, fc.callOrdOf[d][cs.Callee], r.N)
					if fc.countReturns() > 1 {
						name += fmt.Sprintf("@return%d", fc.counters["return"]+1)
					}
					fc.assert("call-requires", name, sc.trBool(r.E), r.Src, site.pos, false)
				}
			}
		}
		fc.runDeferred(d, x, certain)
		for _, cs := range specs {
			if len(cs.Sets) == 0 {
				continue
			}
			if !certain {
				// the deferred call may or may not have been registered on
				// this path: the ghosts it sets become arbitrary
				for _, st := range cs.Sets {
					fc.havoc("g_" + st.Name)
				}
				continue
			}
			if site.results == nil {
				fc.freshResults(site)
			}
			sc := fc.siteScope(site, fc.env, pre)
			for _, st := range cs.Sets {
				t, _ := sc.tr(st.E)
				if _, ok := fc.ghostTypes[st.Name]; !ok {
					fc.fail("set of undeclared ghost %s", st.Name)
				}
				fc.assign("g_"+st.Name, t)
			}
		}
	}
}

// runDeferred applies the effect of one deferred call at a return.
func (fc *FnCtx) runDeferred(d *ssa.Defer, x *ssa.RunDefers, certain bool) {
	ws := fc.callWrites(d)
	onlyAlloc := !ws.All
	for n := range ws.Names {
		if n != "alloc" {
			onlyAlloc = false
		}
	}
	if onlyAlloc {
		return
	}
	callee := fc.resolveCallee(d)
	if callee != nil && certain {
		if ct := fc.eng.ContractForIn(callee, fnPkgPath(fc.fn)); ct != nil {
			if _, done := fc.vals[d.Common().Value]; done || d.Common().StaticCallee() != nil {
				s := fc.buildSite(d)
				fc.applyContract(s, ct, callee)
				return
			}
		}
	}
	fc.applyWriteSet(ws)
}

func (fc *FnCtx) doReturn(x *ssa.Return) {
	fc.counters["return"]++
	for _, li := range fc.loopList {
		if li.Spec != nil && li.Spec.Exhaustive && (li.Blocks[x.Block()] || (li.StmtPos.IsValid() && li.StmtPos <= x.Pos() && x.Pos() < li.StmtEnd)) {
			fc.assert("exhaustive", fmt.Sprintf("%s:loop%d.noearlyexit#%d", fc.name, li.Ord, fc.nextCount(fmt.Sprintf("ex%d", li.Ord))), FalseT, "no return from inside the loop", x.Pos(), false)
		}
	}
	if fc.contract == nil || (len(fc.contract.Ensures) == 0 && !fc.contract.HasMod) {
		return
	}
	var res []Term
	for _, r := range x.Results {
		res = append(res, fc.term(r))
	}
	if fc.contract.HasMod && !fc.contract.Flags["trustedframe"] {
		fc.frameObligations(x)
	}
	sc := fc.funcScope(fc.env, fc.entryEnv, res)
	sc.mode = "post"
	nret := fc.counters["return"]
	for _, e := range fc.contract.Ensures {
		name := fmt.Sprintf("%s:ensures#%d", fc.name, e.N)
		if fc.countReturns() > 1 {
			name += fmt.Sprintf("@return%d", nret)
		}
		fc.assert("ensures", name, sc.trBool(e.E), e.Src, x.Pos(), false)
	}
}

// frameObligations: every heap variable that is not in the declared frame is
// unchanged at all references that existed at entry; variables declared
// fresh(...) likewise.  Writes to objects allocated by the function itself
// are always allowed.
func (fc *FnCtx) frameObligations(x *ssa.Return) {
	declared := newWS()
	fc.modifiesToWS(fc.contract, declared)
	if declared.All {
		return
	}
	suffix := ""
	if fc.countReturns() > 1 {
		suffix = fmt.Sprintf("@return%d", fc.counters["return"])
	}
	if fc.env.epoch != fc.entryEnv.epoch {
		ob := fc.assert("frame", fmt.Sprintf("%s:frame(unknown-effects)%s", fc.name, suffix), FalseT, "a call with unknown effects (no contract or model) may write outside the declared frame", x.Pos(), false)
		_ = ob
		return
	}
	allocEntry := fc.lookupIn(fc.entryEnv, "alloc")
	// elems(p): inside Mem_T only the elements of slice p (entry value) may change
	elemsMem := map[string]Term{}
	for _, pn := range declared.ElemsOf {
		sc := fc.funcScope(fc.entryEnv, fc.entryEnv, nil)
		sc.mode = "pre"
		v, ok := sc.lookupIdent(pn)
		if !ok {
			fc.fail("modifies elems(%s): unknown name", pn)
		}
		st, isSlice := v.ty.Underlying().(*types.Slice)
		if !isSlice {
			fc.fail("modifies elems(%s): not a slice", pn)
		}
		elemsMem[fc.memVar(st.Elem())] = sc.valTerm(v)
	}
	for _, n := range sortedKeys(fc.svHeap) {
		if sl, ok := elemsMem[n]; ok {
			now, was := fc.lookup(n), fc.lookupIn(fc.entryEnv, n)
			if now.S != was.S {
				fc.assert("frame", fmt.Sprintf("%s:frame(%s)%s", fc.name, n, suffix),
					T(SBool, "(and (forall ((a Int)) (=> (and (<= a %[1]s) (not (= a (s_arr %[2]s)))) (= (select %[3]s a) (select %[4]s a)))) (forall ((j Int)) (=> (or (< j (s_off %[2]s)) (>= j (+ (s_off %[2]s) (s_len %[2]s)))) (= (select (select %[3]s (s_arr %[2]s)) j) (select (select %[4]s (s_arr %[2]s)) j)))))", allocEntry.S, sl.S, now.S, was.S),
					"only the elements of the named slice are written in "+n, x.Pos(), false)
			}
			continue
		}
		if !fc.svHeap[n] || (declared.Names[n] && !declared.Fresh[n]) {
			continue
		}
		if !strings.HasPrefix(string(fc.svSort[n]), "(Array Int ") {
			continue
		}
		now, was := fc.lookup(n), fc.lookupIn(fc.entryEnv, n)
		if now.S == was.S {
			continue
		}
		fc.assert("frame", fmt.Sprintf("%s:frame(%s)%s", fc.name, n, suffix), T(SBool, "(forall ((a Int)) (=> (<= a %s) (= (select %s a) (select %s a))))", allocEntry.S, now.S, was.S),
			"memory that existed at entry is unchanged in "+n+" (not in the modifies clause)", x.Pos(), false)
	}
}

func (fc *FnCtx) countReturns() int {
	n := 0
	for _, b := range fc.fn.Blocks {
		for _, in := range b.Instrs {
			if _, ok := in.(*ssa.Return); ok {
				n++
			}
		}
	}
	return n
}

// mentions reports whether an expression uses one of the given identifiers.
func mentions(e Expr, names map[string]bool) bool {
	found := false
	var walk func(e Expr)
	walk = func(e Expr) {
		if e == nil || found {
			return
		}
		switch x := e.(type) {
		case *EIdent:
			if names[x.Name] {
				found = true
			}
		case *EUnary:
			walk(x.X)
		case *EBinary:
			walk(x.X)
			walk(x.Y)
		case *ESel:
			walk(x.X)
		case *EIndex:
			walk(x.X)
			walk(x.I)
		case *ESlice:
			walk(x.X)
			walk(x.Lo)
			walk(x.Hi)
		case *ECall:
			for _, a := range x.Args {
				walk(a)
			}
		case *EOld:
			walk(x.X)
		case *ECond:
			walk(x.C)
			walk(x.A)
			walk(x.B)
		case *EQuant:
			walk(x.Body)
		}
	}
	walk(e)
	return found
}

// tryTrBool translates a callee clause; a clause that names something not
// visible at the call site (a local of the callee) is skipped.
func (fc *FnCtx) tryTrBool(sc *Scope, e Expr) (t Term, ok bool) {
	defer func() {
		if r := recover(); r != nil {
			if te, isTE := r.(transErr); isTE && strings.Contains(string(te), "unknown name") {
				ok = false
				return
			}
			panic(r)
		}
	}()
	return sc.trBool(e), true
}

// checkAllowed enforces an "only calls:" clause: a call that may have effects
// (it is not in the side-effect free library table) must be to a listed callee.
func (fc *FnCtx) checkAllowed(x ssa.CallInstruction, s *CallSite) {
	if fc.contract == nil || len(fc.contract.OnlyCalls) == 0 {
		return
	}
	if _, isBuiltin := s.com.Value.(*ssa.Builtin); isBuiltin {
		return
	}
	for _, k := range s.keys {
		if _, pure := pureLib[k]; pure || isLogging(k) || fc.eng.PureFuncs[k] {
			return
		}
		for _, a := range fc.contract.OnlyCalls {
			if a == k {
				// recorded, so that the evidence shows the check was made
				ob := &Obligation{Name: fmt.Sprintf("%s:only-calls(%s)#%d", fc.name, k, fc.nextCount("oc:"+k)), Kind: "only-calls", Func: fc.name,
					Desc: "effectful call is in the permitted list", Block: fc.blocks[0], Index: 0, Cond: TrueT, fc: fc,
					Props: fc.contract.Props, Status: "discharged", Solver: "structural"}
				if s.pos.IsValid() && fc.eng.Fset != nil {
					p := fc.eng.Fset.Position(s.pos)
					ob.Pos = fmt.Sprintf("%s:%d", relPath(fc.eng.RepoDir, p.Filename), p.Line)
				}
				fc.obligations = append(fc.obligations, ob)
				return
			}
		}
	}
	fc.assertUnmatched(fmt.Sprintf("%s:only-calls(%s)", fc.name, s.display), "call to "+s.display+" is not in the function's list of permitted effectful calls")
}

func blockReaches(from, to *ssa.BasicBlock) bool {
	seen := map[*ssa.BasicBlock]bool{}
	var visit func(b *ssa.BasicBlock) bool
	visit = func(b *ssa.BasicBlock) bool {
		if b == to {
			return true
		}
		if seen[b] {
			return false
		}
		seen[b] = true
		for _, s := range b.Succs {
			if visit(s) {
				return true
			}
		}
		return false
	}
	return visit(from)
}
