package main

// Query construction and the solver portfolio.

import (
	"bytes"
	"context"
	"fmt"
	"os"
	"os/exec"
	"path/filepath"
	"strings"
	"sync"
	"sync/atomic"
	"time"
)

const maxQueryBytes = 4 << 20

var querySerial int64

func (fc *FnCtx) ancestors(b *PBlock) []*PBlock {
	seen := map[*PBlock]bool{}
	var visit func(x *PBlock)
	visit = func(x *PBlock) {
		if seen[x] {
			return
		}
		seen[x] = true
		for _, e := range x.Preds {
			visit(e.From)
		}
	}
	visit(b)
	var out []*PBlock
	for _, x := range fc.blocks {
		if seen[x] {
			out = append(out, x)
		}
	}
	return out
}

// lite queries: quantified assumptions are left out (sound: fewer hypotheses);
// used as a cheap first attempt for every obligation.

func quantified(s string) bool {
	return strings.Contains(s, "(forall ") || strings.Contains(s, "(exists ")
}

func blockAssumes(b *PBlock, upto int, lite bool) string {
	var parts []string
	for i, c := range b.Cmds {
		if upto >= 0 && i >= upto {
			break
		}
		if c.T.S == "true" {
			continue
		}
		if lite && quantified(c.T.S) {
			continue
		}
		parts = append(parts, c.T.S)
	}
	switch len(parts) {
	case 0:
		return "true"
	case 1:
		return parts[0]
	}
	return "(and " + strings.Join(parts, "\n    ") + ")"
}

// pathText: definitions of in_/out_ for the ancestors of b.
func (fc *FnCtx) pathText(b *PBlock, lite bool) string {
	var sb strings.Builder
	for _, x := range fc.ancestors(b) {
		in := "true"
		if x.ID != 0 {
			var alts []string
			for _, e := range x.Preds {
				parts := []string{fmt.Sprintf("out_%d", e.From.ID)}
				if e.Cond.S != "true" {
					parts = append(parts, e.Cond.S)
				}
				for _, q := range e.Eqs {
					parts = append(parts, q.S)
				}
				if len(parts) == 1 {
					alts = append(alts, parts[0])
				} else {
					alts = append(alts, "(and "+strings.Join(parts, " ")+")")
				}
			}
			switch len(alts) {
			case 0:
				in = "false"
			case 1:
				in = alts[0]
			default:
				in = "(or " + strings.Join(alts, "\n    ") + ")"
			}
		}
		fmt.Fprintf(&sb, "(define-fun in_%d () Bool %s)\n", x.ID, in)
		if x != b {
			fmt.Fprintf(&sb, "(define-fun out_%d () Bool (and in_%d %s))\n", x.ID, x.ID, blockAssumes(x, -1, lite))
		}
	}
	return sb.String()
}

func (e *Engine) relevantAxioms(text string) string {
	included := map[int]bool{}
	var sb strings.Builder
	changed := true
	all := text
	for changed {
		changed = false
		for i, a := range e.gaxioms {
			if included[i] {
				continue
			}
			ok := false
			for _, k := range a.keys {
				if strings.Contains(k, "\x00") {
					ps := strings.Split(k, "\x00")
					if strings.Contains(all, ps[0]) && strings.Contains(all, ps[1]) {
						ok = true
					}
				} else if strings.Contains(all, k) {
					ok = true
				}
			}
			if ok {
				included[i] = true
				sb.WriteString(a.text)
				sb.WriteByte('\n')
				all += a.text
				changed = true
			}
		}
	}
	return sb.String()
}

func (e *Engine) header() string {
	var sb strings.Builder
	sb.WriteString("(set-option :produce-models true)\n(set-logic ALL)\n")
	sb.WriteString(e.U.Prelude())
	return sb.String()
}

// relevantDecls keeps only global declarations whose symbol occurs in text
// (declarations are cheap but thousands of unused ones slow parsing).
func (e *Engine) globalDecls(text string) string {
	var sb strings.Builder
	// define-funs may reference other global symbols: iterate to a fixpoint
	need := map[int]bool{}
	all := text
	changed := true
	for changed {
		changed = false
		for i, d := range e.gdecls {
			if need[i] {
				continue
			}
			name := declName(d)
			if strings.Contains(all, name) {
				need[i] = true
				changed = true
				if strings.HasPrefix(d, "(define-fun") {
					all += d
				}
			}
		}
	}
	for i, d := range e.gdecls {
		if need[i] {
			sb.WriteString(d)
			sb.WriteByte('\n')
		}
	}
	return sb.String()
}

func declName(d string) string {
	fs := strings.Fields(d)
	if len(fs) >= 2 {
		return fs[1]
	}
	return d
}

// QueryLite: the same query without quantified assumptions and axioms.
func (ob *Obligation) QueryLite() string { return ob.query(true, true) }

func (ob *Obligation) Query(negate bool) string { return ob.query(negate, false) }

func (ob *Obligation) query(negate, liteMode bool) string {
	fc := ob.fc
	e := fc.eng
	var body strings.Builder
	for _, d := range fc.decls {
		body.WriteString(d)
		body.WriteByte('\n')
	}
	body.WriteString(fc.pathText(ob.Block, liteMode))
	fmt.Fprintf(&body, "(assert in_%d)\n", ob.Block.ID)
	if pre := blockAssumes(ob.Block, ob.Index, liteMode); pre != "true" {
		fmt.Fprintf(&body, "(assert %s)\n", pre)
	}
	if negate {
		fmt.Fprintf(&body, "(assert (not %s))\n", ob.Cond.S)
	}
	text := body.String()
	if liteMode {
		gd := e.globalDecls(text)
		return e.header() + gd + text + "(check-sat)\n"
	}
	ax := e.relevantAxioms(text)
	gd := e.globalDecls(text + ax)
	return e.header() + gd + ax + text + "(check-sat)\n(get-model)\n"
}

type solverSpec struct {
	name string
	args func(file string, timeoutSec int, seed int) []string
}

var solvers = []solverSpec{
	{"z3-new", func(f string, t, seed int) []string {
		return []string{"z3-new", fmt.Sprintf("-T:%d", t), fmt.Sprintf("smt.random_seed=%d", seed), fmt.Sprintf("sat.random_seed=%d", seed), f}
	}},
	{"z3", func(f string, t, seed int) []string {
		return []string{"z3", fmt.Sprintf("-T:%d", t), fmt.Sprintf("smt.random_seed=%d", seed), f}
	}},
	{"cvc5", func(f string, t, seed int) []string {
		return []string{"cvc5", "--strings-exp", fmt.Sprintf("--tlimit=%d", t*1000), fmt.Sprintf("--seed=%d", seed), f}
	}},
}

type solverAnswer struct {
	solver string
	answer string // unsat sat unknown timeout error
	output string
	ms     int64
}

func runSolver(ctx context.Context, sp solverSpec, file string, timeoutSec, seed int) solverAnswer {
	args := sp.args(file, timeoutSec, seed)
	cctx, cancel := context.WithTimeout(ctx, time.Duration(timeoutSec+2)*time.Second)
	defer cancel()
	cmd := exec.CommandContext(cctx, args[0], args[1:]...)
	var out bytes.Buffer
	cmd.Stdout = &out
	cmd.Stderr = &out
	start := time.Now()
	cmd.Run()
	ms := time.Since(start).Milliseconds()
	text := out.String()
	first := strings.TrimSpace(strings.SplitN(text, "\n", 2)[0])
	ans := "error"
	switch {
	case first == "unsat":
		ans = "unsat"
	case first == "sat":
		ans = "sat"
	case first == "unknown":
		ans = "unknown"
	case first == "timeout" || strings.Contains(first, "timeout") || strings.Contains(first, "interrupted") || cctx.Err() != nil:
		ans = "timeout"
	}
	if len(text) > 20000 {
		text = text[:20000] + "\n...truncated"
	}
	return solverAnswer{solver: sp.name, answer: ans, output: text, ms: ms}
}

// Discharge runs the portfolio on one obligation.
func (e *Engine) Discharge(ob *Obligation) {
	if ob.Status != "" {
		return
	}
	q := ob.Query(true)
	ob.Answers = map[string]string{}
	if len(q) > maxQueryBytes {
		ob.Status = "unknown"
		ob.Solver = "size-cap"
		ob.Model = fmt.Sprintf("query of %d bytes exceeds the %d byte cap", len(q), maxQueryBytes)
		return
	}
	// (several obligations can share a name - the automatic invariant of a loop
	// with many back edges - so the file name carries a serial number: two
	// workers writing the same file made a solver read a half-written query)
	serial := atomic.AddInt64(&querySerial, 1)
	file := filepath.Join(e.ScratchDir, fmt.Sprintf("%s.%d.smt2", mangle(ob.Name), serial))
	if err := os.WriteFile(file, []byte(q), 0644); err != nil {
		ob.Status = "unknown"
		ob.Model = err.Error()
		return
	}
	ob.SMTPath = file
	ctx := context.Background()
	// stage 0: without quantified assumptions (cheap; sound - fewer hypotheses).
	// Most range-loop, bounds and path obligations are decided here, before
	// the quantifier-heavy context can slow a solver down.
	if !quantified(ob.Cond.S) {
		lite := ob.QueryLite()
		lfile := filepath.Join(e.ScratchDir, fmt.Sprintf("%s.%d.lite.smt2", mangle(ob.Name), serial))
		if os.WriteFile(lfile, []byte(lite), 0644) == nil {
			a0 := runSolver(ctx, solvers[0], lfile, 1, e.Seed)
			if a0.answer == "unsat" {
				ob.Answers[a0.solver+"/qf"] = a0.answer
				ob.Status, ob.Solver, ob.Ms = "discharged", a0.solver, a0.ms
				ob.SMTPath = lfile
				return
			}
			ob.Ms += a0.ms
		}
	}
	// stage 1: the three solvers race on the full query (the first "unsat"
	// wins and the others are cancelled).  Obligations that one solver cannot
	// do - string-heavy ones for z3, some quantified ones for cvc5 - are
	// decided by another in well under a second instead of after a timeout.
	var satAns *solverAnswer
	{
		ctx2, cancel := context.WithCancel(ctx)
		ch := make(chan solverAnswer, len(solvers))
		for _, sp := range solvers {
			go func(sp solverSpec) { ch <- runSolver(ctx2, sp, file, e.Timeout, e.Seed) }(sp)
		}
		for i := 0; i < len(solvers); i++ {
			r := <-ch
			ob.Answers[r.solver] = r.answer
			if r.answer == "unsat" {
				ob.Status, ob.Solver = "discharged", r.solver
				ob.Ms += r.ms
				cancel()
				return
			}
			if r.answer == "sat" && satAns == nil {
				rr := r
				satAns = &rr
				// a model is an answer too: no need to wait for the others
				ob.Ms += r.ms
				cancel()
				break
			}
			if r.answer == "error" && ob.Model == "" {
				ob.Model = r.output
			}
		}
		cancel()
	}
	if satAns != nil {
		ob.Status, ob.Solver, ob.Model = "failed", satAns.solver, satAns.output
		return
	}
	ob.Status = "unknown"
}

func (e *Engine) DischargeAll(obs []*Obligation, workers int) {
	var wg sync.WaitGroup
	ch := make(chan *Obligation)
	for i := 0; i < workers; i++ {
		wg.Add(1)
		go func() {
			defer wg.Done()
			for ob := range ch {
				e.Discharge(ob)
			}
		}()
	}
	for _, ob := range obs {
		ch <- ob
	}
	close(ch)
	wg.Wait()
}

// Reachable checks that the program point of an obligation can be reached
// (vacuity guard).  Returns "sat", "unsat" or "unknown".
func (e *Engine) Reachable(ob *Obligation) string {
	q := ob.Query(false)
	file := filepath.Join(e.ScratchDir, fmt.Sprintf("reach_%s.%d.smt2", mangle(ob.Name), atomic.AddInt64(&querySerial, 1)))
	os.WriteFile(file, []byte(q), 0644)
	defer os.Remove(file)
	a := runSolver(context.Background(), solvers[0], file, 3, e.Seed)
	if a.answer == "unsat" || a.answer == "sat" {
		return a.answer
	}
	return "unknown"
}
