package main

// Library models (trusted).  Every entry here is an assumption about code
// outside the repository; the tables are printed into the evidence files.

import (
	"fmt"
	"go/constant"
	"go/token"
	"go/types"
	"strings"

	"golang.org/x/tools/go/ssa"
)

type libModel func(fc *FnCtx, s *CallSite) bool

// libWriteSets: library calls whose effects depend on their arguments.
var libWriteSets = map[string]func(fc *FnCtx, c ssa.CallInstruction) *WriteSet{}

// sortInterfaceMethods finds the Less/Swap/Len methods of the concrete value
// passed to sort.Sort.
func (fc *FnCtx) sortInterfaceMethods(v ssa.Value) (less, swap, ln *ssa.Function, concrete ssa.Value) {
	mi, ok := v.(*ssa.MakeInterface)
	if !ok {
		return
	}
	concrete = mi.X
	ms := fc.eng.Prog.MethodSets.MethodSet(mi.X.Type())
	for i := 0; i < ms.Len(); i++ {
		sel := ms.At(i)
		f := fc.eng.Prog.MethodValue(sel)
		switch sel.Obj().Name() {
		case "Less":
			less = f
		case "Swap":
			swap = f
		case "Len":
			ln = f
		}
	}
	return
}

func sortWrites(fc *FnCtx, c ssa.CallInstruction) *WriteSet {
	_, swap, _, _ := fc.sortInterfaceMethods(c.Common().Args[0])
	if swap == nil {
		return nil
	}
	// wrappers generated for value receivers have a body that calls the real method
	ws := newWS()
	ws.union(fc.funcWrites(swap, 0))
	return ws
}

var libModels = map[string]libModel{}

// pureLib: side-effect free library calls.  Value true = deterministic
// (results are functions of the arguments).
var pureLib = map[string]bool{
	"strings.TrimSpace": true, "strings.ToLower": true, "strings.ToUpper": true, "strings.TrimPrefix": true, "strings.TrimSuffix": true,
	"strings.TrimRight": true, "strings.TrimLeft": true, "strings.Trim": true, "strings.Replace": true, "strings.ReplaceAll": true,
	"strings.LastIndex": true, "strings.IndexByte": true, "strings.Count": true, "strings.Fields": false, "strings.Repeat": true,
	"strings.Join": true, "strings.EqualFold": true, "strings.NewReader": false, "strings.NewReplacer": false, "strings.Title": true,
	"strconv.Quote": true, "strconv.FormatInt": true, "strconv.FormatUint": true, "strconv.ParseBool": true, "strconv.ParseFloat": true,
	"path.Base": true, "path.Dir": true, "path.Join": false, "path.Clean": true, "filepath.Base": true, "filepath.Dir": true, "filepath.Join": false, "filepath.Clean": true,
	"path/filepath.Base": true, "path/filepath.Dir": true, "path/filepath.Join": false, "path/filepath.Clean": true,
	"fmt.Sprint": false, "fmt.Sprintln": false, "fmt.Sprintf": false,
	"errors.New": false, "fmt.Errorf": false,
	"sha1.Sum": true, "sha256.Sum256": true,
	"time.Now": false, "time.Since": false, "time.Duration.Seconds": true, "time.Duration.String": true, "time.Time.Unix": true, "time.Time.UnixNano": true,
	"time.Time.Add": true, "time.Time.Sub": true, "time.Time.Before": true, "time.Time.After": true, "time.Time.Equal": true, "time.Time.IsZero": true,
	"time.Time.Format": true, "time.Unix": true, "time.Time.UTC": true, "time.Duration.Nanoseconds": true, "time.NewTimer": false, "time.After": false, "time.NewTicker": false,
	"time.Time.Truncate": true, "time.Duration.Round": true, "time.Time.String": true,
	"sync.Mutex.Lock": false, "sync.Mutex.Unlock": false, "sync.RWMutex.Lock": false, "sync.RWMutex.Unlock": false, "sync.RWMutex.RLock": false, "sync.RWMutex.RUnlock": false,
	"sync.WaitGroup.Add": false, "sync.WaitGroup.Done": false, "sync.WaitGroup.Wait": false, "sync.Once.Do": false,
	"sync.Cond.Wait": false, "sync.Cond.Broadcast": false, "sync.Cond.Signal": false, "sync.NewCond": false,
	"Locker.Lock": false, "Locker.Unlock": false, "sync.Locker.Lock": false, "sync.Locker.Unlock": false,
	"atomic.AddInt64": false, "atomic.AddUint64": false, "atomic.LoadInt64": false, "atomic.AddInt32": false, "atomic.LoadInt32": false, "atomic.StoreInt32": false, "atomic.LoadUint64": false,
	"sync/atomic.AddInt64": false, "sync/atomic.AddUint64": false, "sync/atomic.LoadInt64": false, "sync/atomic.AddInt32": false,
	"log.Printf": false, "log.Print": false, "log.Println": false, "log.Fatalf": false, "log.Fatal": false,
	"error.Error": true, ".Error": true, ".String": true,
	"context.Context.Done": true, "context.Context.Err": false, "Context.Done": true, "Context.Err": false, "context.WithCancel": false, "context.WithTimeout": false, "context.WithDeadline": false,
	"context.Background": false, "context.TODO": false, "context.WithValue": false, "context.Context.Value": true, "Context.Value": true,
	"os.IsNotExist": true, "os.IsExist": true, "os.Getpid": false, "os.Getenv": false,
	"bufio.NewScanner": false, "bufio.Scanner.Scan": false, "bufio.Scanner.Text": false, "bufio.Scanner.Err": true, "bufio.Scanner.Bytes": false, "bufio.Scanner.Buffer": false,
	"os.File.Name": true, "os.File.Close": false, "os.File.Fd": true, "os.FileInfo.Name": true, "FileInfo.Name": true, "os.FileInfo.Size": true, "FileInfo.Size": true, "os.FileInfo.ModTime": true, "os.FileInfo.IsDir": true, "os.FileInfo.Mode": true,
	"bytes.Buffer.String": false, "bytes.Buffer.Bytes": false, "bytes.Buffer.Len": false, "bytes.Buffer.Write": false, "bytes.Buffer.WriteString": false,
	"io.MultiWriter": false, "json.Marshal": false, "encoding/json.Marshal": false, "json.NewDecoder": false, "json.NewEncoder": false,
	"io.Reader.Read": false, "io.ReadCloser.Close": false, "io.Closer.Close": false, "ReadCloser.Close": false, "Closer.Close": false, "bytes.TrimSpace": false, "bytes.Compare": true, "bytes.NewReader": false, "bytes.NewBuffer": false, "bytes.NewBufferString": false,
	"io/ioutil.NopCloser": false, "ioutil.NopCloser": false, "io.MultiReader": false, "io.TeeReader": false, "io.LimitReader": false,
	"math.MaxInt64": true, "math.Ceil": true, "math.Floor": true,
	"http.ResponseWriter.Header": true, "ResponseWriter.Header": true, "http.Header.Set": false, "http.Header.Add": false, "http.Header.Del": false,
	"http.ResponseWriter.WriteHeader": false, "ResponseWriter.WriteHeader": false, "http.Error": false,
	"http.StatusText": true, "net/http.StatusText": true, "http.Header.Get": true, "net/http.Header.Get": true, "Header.Get": true,
	"url.Values.Get": true, "net/url.Values.Get": true, "url.Values.Encode": true, "url.URL.String": true, "url.Values.Has": true,
	"mux.Vars": true, "gorilla/mux.Vars": true,
	"regexp.MustCompile": true, "regexp.QuoteMeta": true,
	"prometheus.Counter.Inc": false, "prometheus.Counter.Add": false, "prometheus.Gauge.Set": false, "Counter.Inc": false, "Counter.Add": false, "Gauge.Set": false, "Gauge.Inc": false, "Gauge.Dec": false, "Gauge.Add": false,
	"prometheus.CounterVec.With": false, "prometheus.GaugeVec.With": false, "prometheus.CounterVec.WithLabelValues": false, "prometheus.GaugeVec.WithLabelValues": false,
	"Observer.Observe": false, "prometheus.Summary.Observe": false, "Summary.Observe": false, "prometheus.Histogram.Observe": false, "prometheus.SummaryVec.WithLabelValues": false, "prometheus.Labels": false,
	"rand.Intn": false, "rand.Float64": false, "math/rand.Intn": false, "math/rand.Float64": false, "rand.Int63": false,
	"runtime.Gosched": false, "runtime.GC": false,
	"ctxlog.FromContext": false, "ctxlog.Context": false,
}

// logrus-style logging: any method of these receiver types is effect-free.
var loggingRecv = []string{"logrus.Entry.", "logrus.Logger.", "logrus.FieldLogger.", "FieldLogger.", "log.Logger.", "logrus.Fields", "Entry.", "StdLogger.", "Ext1FieldLogger."}

func isLogging(key string) bool {
	for _, p := range loggingRecv {
		if strings.HasPrefix(key, p) {
			return true
		}
	}
	return false
}

// libEffects: (effects, known).  Effects name engine-level ghost state.
func libEffects(key string) ([]string, bool) {
	if _, ok := pureLib[key]; ok {
		return nil, true
	}
	if isLogging(key) {
		return nil, true
	}
	return nil, false
}

func libDeterministic(key string) bool { return pureLib[key] }

func (fc *FnCtx) libStateVar(name string) string {
	n := "X_" + name
	if _, ok := fc.svSort[n]; !ok {
		fc.stateVar(n, libStateSorts[name], true)
	}
	return n
}

var libStateSorts = map[string]Sort{
	"written": ArraySort(SInt, SString), // bytes written so far to an io.Writer / hash.Hash
	"hashbuf": ArraySort(SInt, SString),
	"stream":  ArraySort(SInt, SInt),    // read cursor of an io.Reader
}

func init() {
	libWriteSets["sort.IntSlice.Swap"] = func(fc *FnCtx, c ssa.CallInstruction) *WriteSet {
		ws := newWS()
		ws.add(fc.memVar(types.Typ[types.Int]))
		return ws
	}
	libModels["sort.IntSlice.Swap"] = func(fc *FnCtx, s *CallSite) bool {
		sl := *s.recv
		i, j := s.args[0], s.args[1]
		mem := fc.memVar(types.Typ[types.Int])
		m0 := fc.lookup(mem)
		arr := T(SInt, "(s_arr %s)", sl.S)
		row := Select(m0, arr)
		off := T(SInt, "(s_off %s)", sl.S)
		pi, pj := fc.ix(off, i), fc.ix(off, j)
		fc.boundsCheck(i, T(SInt, "(s_len %s)", sl.S), s.pos)
		fc.boundsCheck(j, T(SInt, "(s_len %s)", sl.S), s.pos)
		nr := Store(Store(row, pi, Select(row, pj)), pj, Select(row, pi))
		fc.assign(mem, Store(m0, arr, nr))
		s.results = nil
		return true
	}
	memWS := func(t types.Type) func(fc *FnCtx, c ssa.CallInstruction) *WriteSet {
		return func(fc *FnCtx, c ssa.CallInstruction) *WriteSet {
			ws := newWS()
			ws.add("alloc")
			n := fc.memVar(t)
			ws.add(n)
			ws.Fresh[n] = true
			return ws
		}
	}
	libWriteSets["strings.Split"] = memWS(types.Typ[types.String])
	libWriteSets["strings.SplitN"] = memWS(types.Typ[types.String])
	libWriteSets["regexp.Regexp.FindStringSubmatch"] = memWS(types.Typ[types.String])
	for _, k := range []string{"md5.New", "sha1.New", "hmac.New"} {
		libWriteSets[k] = func(fc *FnCtx, c ssa.CallInstruction) *WriteSet {
			ws := newWS()
			ws.add("alloc")
			n := fc.libStateVar("written")
			ws.add(n)
			ws.Fresh[n] = true
			return ws
		}
	}
	// url.Values.Set / Del (documented behaviour: v[key] = []string{value};
	// delete(v, key)) - plain map operations on map[string][]string
	valuesWS := func(fc *FnCtx, c ssa.CallInstruction) *WriteSet {
		ws := newWS()
		ws.add("alloc")
		mt := types.NewMap(types.Typ[types.String], types.NewSlice(types.Typ[types.String]))
		d, v, l := fc.mapVars(mt)
		ws.add(d)
		ws.add(v)
		ws.add(l)
		n := fc.memVar(types.Typ[types.String])
		ws.add(n)
		ws.Fresh[n] = true
		return ws
	}
	for _, k := range []string{"url.Values.Set", "net/url.Values.Set"} {
		libWriteSets[k] = valuesWS
		libModels[k] = func(fc *FnCtx, s *CallSite) bool {
			if s.recv == nil || len(s.args) != 2 {
				return false
			}
			mt := types.NewMap(types.Typ[types.String], types.NewSlice(types.Typ[types.String]))
			r := fc.newRef()
			mem := fc.memVar(types.Typ[types.String])
			row := Term{fmt.Sprintf("(store ((as const %s) \"\") 0 %s)", ArraySort(SInt, SString), s.args[1].S), ArraySort(SInt, SString)}
			fc.assign(mem, Store(fc.lookup(mem), r, row))
			fc.mapStore(mt, *s.recv, s.args[0], T(SSlice, "(mkslice %s 0 1 1)", r.S))
			fc.assumeNote("url.Values.Set(k, v) is v[k] = []string{v}; url.Values.Del(k) is delete(v, k) (documented behaviour of net/url)")
			s.results = nil
			return true
		}
	}
	for _, k := range []string{"url.Values.Del", "net/url.Values.Del"} {
		libWriteSets[k] = valuesWS
		libModels[k] = func(fc *FnCtx, s *CallSite) bool {
			if s.recv == nil || len(s.args) != 1 {
				return false
			}
			mt := types.NewMap(types.Typ[types.String], types.NewSlice(types.Typ[types.String]))
			fc.mapDelete(mt, *s.recv, s.args[0])
			fc.assumeNote("url.Values.Set(k, v) is v[k] = []string{v}; url.Values.Del(k) is delete(v, k) (documented behaviour of net/url)")
			s.results = nil
			return true
		}
	}
	libWriteSets["sort.Sort"] = sortWrites
	libWriteSets["sort.Stable"] = sortWrites
	libModels["sort.Sort"] = modelSortSort
	libModels["sort.Stable"] = modelSortSort
	libModels["md5.Sum"] = func(fc *FnCtx, s *CallSite) bool {
		e := fc.eng
		e.hashDecls()
		s.results = []Term{T(ArraySort(SInt, SInt), "(md5sum %s)", fc.bstr(s.args[0]).S)}
		return true
	}
	libModels["md5.New"] = func(fc *FnCtx, s *CallSite) bool { return newHash(fc, s, 1, StrLit("")) }
	libModels["sha1.New"] = func(fc *FnCtx, s *CallSite) bool { return newHash(fc, s, 2, StrLit("")) }
	libModels["hmac.New"] = func(fc *FnCtx, s *CallSite) bool {
		alg := 0
		if f, ok := s.argVals[0].(*ssa.Function); ok {
			switch shortName(f) {
			case "sha1.New":
				alg = 12
			case "md5.New":
				alg = 11
			case "sha256.New":
				alg = 13
			}
		}
		if alg == 0 {
			return false
		}
		return newHash(fc, s, alg, fc.bstr(s.args[1]))
	}
	for _, k := range []string{"hash.Hash.Write", "Hash.Write", "io.Writer.Write", "Writer.Write", "http.ResponseWriter.Write", "ResponseWriter.Write"} {
		libModels[k] = modelWriterWrite
		libWriteSets[k] = writtenWS
	}
	libModels["io.WriteString"] = func(fc *FnCtx, s *CallSite) bool {
		w := fc.libStateVar("written")
		m := fc.lookup(w)
		fc.assign(w, Store(m, s.args[0], T(SString, "(str.++ %s %s)", Select(m, s.args[0]).S, s.args[1].S)))
		s.results = []Term{T(SInt, "(str.len %s)", s.args[1].S), IntLit(0)}
		fc.assumeNote("io.WriteString/Write on a hash.Hash never fail and append to the hashed message (documented behaviour of package hash)")
		return true
	}
	libWriteSets["io.WriteString"] = writtenWS
	for _, k := range []string{"hash.Hash.Sum", "Hash.Sum"} {
		libModels[k] = modelHashSum
		libWriteSets[k] = memWS(types.Typ[types.Uint8])
	}
	libModels["errors.New"] = freshError
	libModels["fmt.Errorf"] = freshError
	libModels["strings.HasPrefix"] = func(fc *FnCtx, s *CallSite) bool {
		s.results = []Term{T(SBool, "(str.prefixof %s %s)", s.args[1].S, s.args[0].S)}
		return true
	}
	libModels["strings.HasSuffix"] = func(fc *FnCtx, s *CallSite) bool {
		s.results = []Term{T(SBool, "(str.suffixof %s %s)", s.args[1].S, s.args[0].S)}
		return true
	}
	libModels["strings.Contains"] = func(fc *FnCtx, s *CallSite) bool {
		s.results = []Term{T(SBool, "(str.contains %s %s)", s.args[0].S, s.args[1].S)}
		return true
	}
	libModels["strings.Index"] = func(fc *FnCtx, s *CallSite) bool {
		s.results = []Term{T(SInt, "(str.indexof %s %s 0)", s.args[0].S, s.args[1].S)}
		return true
	}
	// IndexRune / IndexByte with a character: first position of that character
	// (exact for single-byte characters, which is how strings are modelled)
	idxChar := func(fc *FnCtx, s *CallSite) bool {
		s.results = []Term{T(SInt, "(str.indexof %s (str.from_code %s) 0)", s.args[0].S, s.args[1].S)}
		return true
	}
	libModels["strings.IndexRune"] = idxChar
	libModels["strings.IndexByte"] = idxChar
	libModels["bytes.Equal"] = func(fc *FnCtx, s *CallSite) bool {
		s.results = []Term{Eq(fc.bstr(s.args[0]), fc.bstr(s.args[1]))}
		return true
	}
	libModels["bytes.Compare"] = func(fc *FnCtx, s *CallSite) bool {
		r := fc.freshConst("bcmp", SInt)
		a, b := s.args[0], s.args[1]
		mem := fc.lookup(fc.memVar(types.Typ[types.Uint8]))
		fc.eng.ixDecl()
		same := T(SBool, "(and (= (s_len %[1]s) (s_len %[2]s)) (forall ((k Int)) (! (=> (and (<= 0 k) (< k (s_len %[1]s))) (= (select (select %[3]s (s_arr %[1]s)) (ix (s_off %[1]s) k)) (select (select %[3]s (s_arr %[2]s)) (ix (s_off %[2]s) k)))) :pattern ((select (select %[3]s (s_arr %[1]s)) (ix (s_off %[1]s) k))) :pattern ((select (select %[3]s (s_arr %[2]s)) (ix (s_off %[2]s) k))))))", a.S, b.S, mem.S)
		fc.assume(T(SBool, "(and (<= (- 1) %s) (<= %s 1) (= (= %s 0) %s))", r.S, r.S, r.S, same.S))
		s.results = []Term{r}
		return true
	}
	libModels["bytes.HasSuffix"] = func(fc *FnCtx, s *CallSite) bool {
		s.results = []Term{T(SBool, "(str.suffixof %s %s)", fc.bstr(s.args[1]).S, fc.bstr(s.args[0]).S)}
		return true
	}
	libModels["bytes.HasPrefix"] = func(fc *FnCtx, s *CallSite) bool {
		s.results = []Term{T(SBool, "(str.prefixof %s %s)", fc.bstr(s.args[1]).S, fc.bstr(s.args[0]).S)}
		return true
	}
	libModels["strings.Split"] = modelSplit
	libModels["strings.SplitN"] = modelSplit
	libModels["strconv.Itoa"] = func(fc *FnCtx, s *CallSite) bool {
		fc.eng.declBuiltin("itoa")
		fc.eng.itoaAxioms()
		s.results = []Term{T(SString, "(itoa %s)", s.args[0].S)}
		return true
	}
	libModels["strconv.ParseInt"] = modelParseInt
	libModels["strconv.ParseUint"] = modelParseInt
	libModels["strconv.Atoi"] = modelParseInt
	libModels["fmt.Sprintf"] = modelSprintf
	libModels["regexp.Regexp.MatchString"] = modelRegexMatch
	libModels["regexp.Regexp.FindStringSubmatch"] = modelRegexSubmatch
	libModels["sort.Slice"] = modelSortSlice
	libModels["sort.SliceStable"] = modelSortSlice
	libModels["sort.Strings"] = modelSortStrings
}

func freshError(fc *FnCtx, s *CallSite) bool {
	r := fc.freshConst("err", SInt)
	fc.eng.GDecl("typeof", "(declare-fun typeof (Int) Int)")
	fc.assume(T(SBool, "(> %s 0)", r.S))
	// errors created here are distinct from the package-level sentinels that
	// existed before (they are fresh allocations)
	for _, sn := range sentinels {
		fc.assume(T(SBool, "(not (= %s %s))", r.S, sn))
	}
	fc.assume(T(SBool, "(= (typeof %s) (- 1))", r.S))
	s.results = []Term{r}
	return true
}

func (e *Engine) itoaAxioms() {
	e.declBuiltin("itoa")
	e.GDecl("atoi", "(declare-fun atoi (String) Int)")
	e.GAxiom("itoa_inv", "(assert (forall ((n Int)) (! (= (atoi (itoa n)) n) :pattern ((itoa n)))))", "itoa")
	e.GAxiom("itoa_digits", "(assert (forall ((n Int)) (! (=> (>= n 0) (str.in_re (itoa n) (re.+ (re.range \"0\" \"9\")))) :pattern ((itoa n)))))", "itoa")
}

// varargs recovers the values packed into a variadic []interface{} argument.
func varargs(v ssa.Value) ([]ssa.Value, bool) {
	sl, ok := v.(*ssa.Slice)
	if !ok {
		if c, ok := v.(*ssa.Const); ok && c.Value == nil {
			return nil, true // nil slice: no arguments
		}
		return nil, false
	}
	a, ok := sl.X.(*ssa.Alloc)
	if !ok {
		return nil, false
	}
	at, ok := a.Type().Underlying().(*types.Pointer).Elem().Underlying().(*types.Array)
	if !ok {
		return nil, false
	}
	out := make([]ssa.Value, at.Len())
	for _, ref := range *a.Referrers() {
		ia, ok := ref.(*ssa.IndexAddr)
		if !ok {
			continue
		}
		c, ok := ia.Index.(*ssa.Const)
		if !ok {
			return nil, false
		}
		idx := c.Int64()
		for _, r2 := range *ia.Referrers() {
			if st, ok := r2.(*ssa.Store); ok && st.Addr == ia {
				val := st.Val
				if mi, ok := val.(*ssa.MakeInterface); ok {
					val = mi.X
				}
				if idx >= 0 && int(idx) < len(out) {
					out[idx] = val
				}
			}
		}
	}
	for _, o := range out {
		if o == nil {
			return nil, false
		}
	}
	return out, true
}

// modelSprintf interprets the common verbs; anything else becomes an
// uninterpreted, deterministic function of the arguments.
func modelSprintf(fc *FnCtx, s *CallSite) bool {
	c, ok := s.argVals[0].(*ssa.Const)
	if !ok || c.Value == nil || c.Value.Kind() != constant.String {
		return false
	}
	format := constant.StringVal(c.Value)
	vals, ok := varargs(s.argVals[1])
	if !ok {
		return false
	}
	t, ok := fc.sprintfTerm(format, vals)
	if !ok {
		return false
	}
	s.results = []Term{t}
	return true
}

func (fc *FnCtx) sprintfTerm(format string, vals []ssa.Value) (Term, bool) {
	var parts []Term
	ai := 0
	i := 0
	lit := ""
	flush := func() {
		if lit != "" {
			parts = append(parts, StrLit(lit))
			lit = ""
		}
	}
	for i < len(format) {
		ch := format[i]
		if ch != '%' {
			lit += string(ch)
			i++
			continue
		}
		j := i + 1
		for j < len(format) && strings.ContainsRune("0123456789+-# .", rune(format[j])) {
			j++
		}
		if j >= len(format) {
			return Term{}, false
		}
		verb := format[i : j+1]
		i = j + 1
		if verb == "%%" {
			lit += "%"
			continue
		}
		if ai >= len(vals) {
			return Term{}, false
		}
		v := vals[ai]
		ai++
		flush()
		parts = append(parts, fc.fmtVerb(verb, v))
	}
	flush()
	if ai != len(vals) {
		return Term{}, false
	}
	switch len(parts) {
	case 0:
		return StrLit(""), true
	case 1:
		return parts[0], true
	}
	var ss []string
	for _, p := range parts {
		ss = append(ss, p.S)
	}
	return T(SString, "(str.++ %s)", strings.Join(ss, " ")), true
}

func (fc *FnCtx) fmtVerb(verb string, v ssa.Value) Term {
	t := fc.term(v)
	ty := v.Type()
	e := fc.eng
	isInt := false
	if b, ok := ty.Underlying().(*types.Basic); ok && b.Info()&types.IsInteger != 0 {
		isInt = true
	}
	switch {
	case (verb == "%s" || verb == "%v") && t.Sort == SString:
		return t
	case (verb == "%d" || verb == "%v") && isInt:
		e.itoaAxioms()
		return T(SString, "(itoa %s)", t.S)
	case verb == "%x" && t.Sort == SString:
		e.declBuiltin("hexlower")
		return T(SString, "(hexlower %s)", t.S)
	case verb == "%x" && t.Sort == SSlice:
		e.declBuiltin("hexlower")
		return T(SString, "(hexlower %s)", fc.bstr(t).S)
	case verb == "%x" && isInt:
		e.declBuiltin("fmtx")
		return T(SString, "(fmtx %s)", t.S)
	case verb == "%08x" && isInt:
		e.declBuiltin("fmt08x")
		e.GAxiom("fmt08x_shape", "(assert (forall ((n Int)) (! (=> (and (<= 0 n) (< n 4294967296)) (str.in_re (fmt08x n) ((_ re.loop 8 8) (re.union (re.range \"0\" \"9\") (re.range \"a\" \"f\"))))) :pattern ((fmt08x n)))))", "fmt08x")
		return T(SString, "(fmt08x %s)", t.S)
	}
	if verb == "%03o" && isInt {
		e.GDecl("fmt03o", "(declare-fun fmt03o (Int) String)")
		e.GAxiom("fmt03o_shape", "(assert (forall ((n Int)) (! (=> (and (<= 0 n) (< n 512)) (and (= (str.len (fmt03o n)) 3) (str.in_re (fmt03o n) ((_ re.loop 3 3) (re.range \"0\" \"7\"))))) :pattern ((fmt03o n)))))", "fmt03o")
		return T(SString, "(fmt03o %s)", t.S)
	}
	// [16]byte arrays (md5.Sum results) with %x
	if verb == "%x" {
		if _, ok := ty.Underlying().(*types.Array); ok {
			name := "hexarr"
			e.GDecl(name, "(declare-fun hexarr ((Array Int Int)) String)")
			return T(SString, "(hexarr %s)", t.S)
		}
	}
	name := "fmt_" + mangle(verb) + "_" + mangle(string(t.Sort))
	e.GDecl(name, fmt.Sprintf("(declare-fun %s (%s) String)", name, t.Sort))
	return T(SString, "(%s %s)", name, t.S)
}

// strings.Split(s, sep): parts, with Join(parts, sep) == s for up to 6 parts
// and no part containing sep.
func modelSplit(fc *FnCtx, s *CallSite) bool {
	e := fc.eng
	e.GDecl("splitcount", "(declare-fun splitcount (String String) Int)")
	e.GDecl("splitpart", "(declare-fun splitpart (String String Int) String)")
	e.GAxiom("splitcount_pos", "(assert (forall ((s String) (p String)) (! (>= (splitcount s p) 1) :pattern ((splitcount s p)))))", "splitcount")
	e.GAxiom("splitpart_nosep", "(assert (forall ((s String) (p String) (i Int)) (! (=> (and (<= 0 i) (< i (splitcount s p)) (> (str.len p) 0)) (not (str.contains (splitpart s p i) p))) :pattern ((splitpart s p i)))))", "splitpart")
	for k := 1; k <= 6; k++ {
		var cat []string
		for i := 0; i < k; i++ {
			if i > 0 {
				cat = append(cat, "p")
			}
			cat = append(cat, fmt.Sprintf("(splitpart s p %d)", i))
		}
		body := cat[0]
		if len(cat) > 1 {
			body = "(str.++ " + strings.Join(cat, " ") + ")"
		}
		e.GAxiom(fmt.Sprintf("split_join_%d", k), fmt.Sprintf("(assert (forall ((s String) (p String)) (! (=> (= (splitcount s p) %d) (= s %s)) :pattern ((splitcount s p)))))", k, body), "splitcount")
	}
	e.GAxiom("split_nosep_one", "(assert (forall ((s String) (p String)) (! (=> (and (> (str.len p) 0) (not (str.contains s p))) (= (splitcount s p) 1)) :pattern ((splitcount s p)))))", "splitcount")
	str, sep := s.args[0], s.args[1]
	r := fc.newRef()
	mem := fc.memVar(types.Typ[types.String])
	row := fc.freshConst("splitrow", ArraySort(SInt, SString))
	n := T(SInt, "(splitcount %s %s)", str.S, sep.S)
	if len(s.args) == 3 {
		// SplitN(s, sep, k), k > 0: at most k parts; all but the last returned
		// part are the parts of Split; the last one is the unsplit remainder.
		k := s.args[2]
		cnt := fc.freshConst("splitn", SInt)
		fc.assume(T(SBool, "(= %s (ite (and (> %s 0) (< %s %s)) %s %s))", cnt.S, k.S, k.S, n.S, k.S, n.S))
		fc.assume(T(SBool, "(forall ((i Int)) (! (=> (or (< i (- %s 1)) (= %s %s)) (= (select %s i) (splitpart %s %s i))) :pattern ((select %s i))))", cnt.S, cnt.S, n.S, row.S, str.S, sep.S, row.S))
		fc.assign(mem, Store(fc.lookup(mem), r, row))
		s.results = []Term{T(SSlice, "(mkslice %s 0 %s %s)", r.S, cnt.S, cnt.S)}
		fc.assumeNote("strings.SplitN with a zero limit is not modelled (returns nil)")
		return true
	}
	fc.assume(T(SBool, "(forall ((i Int)) (! (= (select %s i) (splitpart %s %s i)) :pattern ((select %s i))))", row.S, str.S, sep.S, row.S))
	fc.assign(mem, Store(fc.lookup(mem), r, row))
	s.results = []Term{T(SSlice, "(mkslice %s 0 %s %s)", r.S, n.S, n.S)}
	return true
}

func modelParseInt(fc *FnCtx, s *CallSite) bool {
	e := fc.eng
	e.itoaAxioms()
	v := fc.freshConst("parsed", SInt)
	er := fc.freshConst("parseerr", SInt)
	e.GDecl("parseok", "(declare-fun parseok (String Int) Bool)")
	e.GDecl("parseint", "(declare-fun parseint (String Int) Int)")
	base := IntLit(10)
	if len(s.args) >= 2 {
		base = s.args[1]
	}
	fc.assume(T(SBool, "(= (= %s 0) (parseok %s %s))", er.S, s.args[0].S, base.S))
	fc.assume(T(SBool, "(=> (= %s 0) (= %s (parseint %s %s)))", er.S, v.S, s.args[0].S, base.S))
	fc.assume(T(SBool, "(>= %s 0)", er.S))
	// range by result type
	fc.assume(fc.typeFacts(s.resT[0], v, 1))
	if len(s.args) == 3 {
		if c, ok := s.argVals[2].(*ssa.Const); ok {
			bits := c.Int64()
			if bits > 0 && bits < 64 {
				if strings.HasSuffix(s.display, "ParseUint") {
					fc.assume(T(SBool, "(=> (= %s 0) (and (<= 0 %s) (< %s %s)))", er.S, v.S, v.S, pow2(bits)))
				} else {
					fc.assume(T(SBool, "(=> (= %s 0) (and (<= (- %s) %s) (< %s %s)))", er.S, pow2(bits-1), v.S, v.S, pow2(bits-1)))
				}
			}
		}
	}
	e.GAxiom("parse_itoa", "(assert (forall ((n Int)) (! (and (parseok (itoa n) 10) (= (parseint (itoa n) 10) n)) :pattern ((itoa n)))))", "itoa")
	s.results = []Term{v, er}
	return true
}

// regexLiteralOf finds the pattern a *regexp.Regexp value was compiled from:
// a package-level variable initialised with regexp.MustCompile(<literal>).
func (fc *FnCtx) regexLiteralOf(v ssa.Value) (string, bool) {
	for {
		switch x := v.(type) {
		case *ssa.UnOp:
			if x.Op == token.MUL {
				v = x.X
				continue
			}
			return "", false
		case *ssa.Global:
			return fc.eng.regexInit(x)
		case *ssa.Call:
			if f := x.Call.StaticCallee(); f != nil && (shortName(f) == "regexp.MustCompile" || shortName(f) == "regexp.Compile") {
				if c, ok := x.Call.Args[0].(*ssa.Const); ok && c.Value != nil {
					return constant.StringVal(c.Value), true
				}
			}
			return "", false
		default:
			return "", false
		}
	}
}

var regexInitMemo = map[*ssa.Global]string{}

func (e *Engine) regexInit(g *ssa.Global) (string, bool) {
	if s, ok := regexInitMemo[g]; ok {
		return s, s != "\x00"
	}
	regexInitMemo[g] = "\x00"
	if e.assignedOutsideInit(g) {
		return "", false
	}
	// find the store in the package initialiser
	init := g.Pkg.Func("init")
	if init == nil {
		return "", false
	}
	for _, b := range init.Blocks {
		for _, in := range b.Instrs {
			st, ok := in.(*ssa.Store)
			if !ok || st.Addr != g {
				continue
			}
			// "var X = otherpkg.Y": follow the alias
			if ld, ok := st.Val.(*ssa.UnOp); ok && ld.Op == token.MUL {
				if g2, ok := ld.X.(*ssa.Global); ok {
					lit, ok := e.regexInit(g2)
					if ok {
						regexInitMemo[g] = lit
					}
					return lit, ok
				}
			}
			call, ok := st.Val.(*ssa.Call)
			if !ok {
				return "", false
			}
			f := call.Call.StaticCallee()
			if f == nil || shortName(f) != "regexp.MustCompile" {
				return "", false
			}
			c, ok := call.Call.Args[0].(*ssa.Const)
			if !ok || c.Value == nil {
				return "", false
			}
			regexInitMemo[g] = constant.StringVal(c.Value)
			return regexInitMemo[g], true
		}
	}
	return "", false
}

func modelRegexMatch(fc *FnCtx, s *CallSite) bool {
	pat, ok := fc.regexLiteralOf(s.recvVal)
	if !ok {
		return false
	}
	re, err := regexSearchToSMT(pat)
	if err != nil {
		fc.warn("regexp %q outside the supported subset: %v", pat, err)
		return false
	}
	s.results = []Term{T(SBool, "(str.in_re %s %s)", s.args[0].S, re)}
	fc.assumeNote("regexp patterns are compiled mechanically from the literal in the source into SMT regular expressions")
	return true
}

func modelRegexSubmatch(fc *FnCtx, s *CallSite) bool {
	pat, ok := fc.regexLiteralOf(s.recvVal)
	if !ok {
		return false
	}
	d, err := regexDecompose(fc, pat, s.args[0])
	if err != nil {
		fc.warn("regexp %q outside the supported subset: %v", pat, err)
		return false
	}
	// result: nil slice, or a slice of len(groups)+1 strings
	matched := T(SBool, "(str.in_re %s %s)", s.args[0].S, d.whole)
	r := fc.newRef()
	mem := fc.memVar(types.Typ[types.String])
	row := fc.freshConst("submatch", ArraySort(SInt, SString))
	fc.assign(mem, Store(fc.lookup(mem), r, row))
	n := len(d.groups) + 1
	res := fc.freshConst("m", SSlice)
	fc.assume(Eq(res, Ite(matched, T(SSlice, "(mkslice %s 0 %d %d)", r.S, n, n), Term{"(mkslice 0 0 0 0)", SSlice})))
	var facts []Term
	facts = append(facts, d.facts...)
	facts = append(facts, T(SBool, "(= (select %s 0) %s)", row.S, d.m0.S))
	for i, g := range d.groups {
		facts = append(facts, T(SBool, "(= (select %s %d) %s)", row.S, i+1, g.S))
	}
	fc.assume(Implies(matched, And(facts...)))
	fc.assumeNote("regexp submatches: some decomposition consistent with the group structure (over-approximates leftmost-first matching)")
	s.results = []Term{res}
	return true
}

// sort.Slice(x, less): the result is a permutation of the input whose
// adjacent... (all pairs) respect less.  The less closure must have a
// contract "ensures result == <expr over x[i], x[j]>" which is used as the
// ordering; without one the slice contents are simply havocked.
func modelSortSlice(fc *FnCtx, s *CallSite) bool {
	mi, ok := s.argVals[0].(*ssa.MakeInterface)
	if !ok {
		return false
	}
	st, ok := mi.X.Type().Underlying().(*types.Slice)
	if !ok {
		return false
	}
	u := fc.eng.U
	sl := fc.term(mi.X)
	mem := fc.memVar(st.Elem())
	es := u.SortOf(st.Elem())
	m0 := fc.lookup(mem)
	oldRow := Select(m0, T(SInt, "(s_arr %s)", sl.S))
	row := fc.freshConst("sorted", ArraySort(SInt, es))
	fc.fresh++
	pi := fmt.Sprintf("perm!%d", fc.fresh)
	pinv := fmt.Sprintf("perminv!%d", fc.fresh)
	fc.decls = append(fc.decls, fmt.Sprintf("(declare-fun %s (Int) Int)", pi), fmt.Sprintf("(declare-fun %s (Int) Int)", pinv))
	off := T(SInt, "(s_off %s)", sl.S)
	ln := T(SInt, "(s_len %s)", sl.S)
	fc.eng.ixDecl()
	// permutation of the window [off, off+len)
	fc.assume(T(SBool, "(forall ((i Int)) (! (=> (and (<= 0 i) (< i %[1]s)) (and (<= 0 (%[2]s i)) (< (%[2]s i) %[1]s) (= (%[3]s (%[2]s i)) i) (= (select %[4]s (ix %[5]s i)) (select %[6]s (ix %[5]s (%[2]s i)))))) :pattern ((%[2]s i)) :pattern ((select %[4]s (ix %[5]s i)))))",
		ln.S, pi, pinv, row.S, off.S, oldRow.S))
	fc.assume(T(SBool, "(forall ((i Int)) (! (=> (and (<= 0 i) (< i %[1]s)) (and (<= 0 (%[3]s i)) (< (%[3]s i) %[1]s) (= (%[2]s (%[3]s i)) i))) :pattern ((%[3]s i))))", ln.S, pi, pinv))
	fc.assume(T(SBool, "(forall ((j Int)) (! (=> (or (< j %[1]s) (>= j (+ %[1]s %[2]s))) (= (select %[3]s j) (select %[4]s j))) :pattern ((select %[3]s j))))", off.S, ln.S, row.S, oldRow.S))
	fc.assign(mem, Store(m0, T(SInt, "(s_arr %s)", sl.S), row))
	// ordering from the less closure's contract
	var lessFn *ssa.Function
	if mc, ok := s.argVals[1].(*ssa.MakeClosure); ok {
		lessFn = mc.Fn.(*ssa.Function)
		s.closure = mc
	} else if f, ok := s.argVals[1].(*ssa.Function); ok {
		lessFn = f
	}
	if lessFn != nil {
		if ct := fc.eng.ContractFor(lessFn); ct != nil && len(ct.Ensures) > 0 {
			// assume: forall i<j: !less(j,i) in the post state
			qi, qj := Term{"si!", SInt}, Term{"sj!", SInt}
			bind := map[string]specVal{}
			ps := lessFn.Params
			bind[ps[0].Name()] = specVal{t: qj, ty: tInt} // less(j, i) must be false
			bind[ps[1].Name()] = specVal{t: qi, ty: tInt}
			if mc, ok := s.argVals[1].(*ssa.MakeClosure); ok {
				for k, fv := range lessFn.FreeVars {
					bv := fc.value(mc.Bindings[k])
					et := fv.Type().Underlying().(*types.Pointer).Elem()
					if bv.P != nil {
						bind[fv.Name()] = specVal{p: bv.P, ty: et}
					} else {
						bind[fv.Name()] = specVal{p: fc.placeOfPtr(bv.T, et), ty: et}
					}
				}
			}
			res := Term{"sless!", SBool}
			bind["result"] = specVal{t: res, ty: tBool}
			sc := fc.calleeScope(ct, lessFn, fc.env, fc.env, bind)
			// si!/sj! are bound by the quantifier built below: facts about
			// terms that mention them must not be emitted outside it
			sc.bound = append(sc.bound, map[string]specVal{})
			var posts []Term
			for _, en := range ct.Ensures {
				posts = append(posts, sc.trBool(en.E))
			}
			// exists-free encoding: the contract must define result, so
			// (posts => !result) for all i<j
			fc.assume(T(SBool, "(forall ((si! Int) (sj! Int) (sless! Bool)) (=> (and (<= 0 si!) (< si! sj!) (< sj! %s) %s) (not sless!)))", ln.S, And(posts...).S))
			fc.assumeNote("sort.Slice: result is a permutation, ordered according to the contract of the less function (which is verified separately)")
			s.results = nil
			return true
		}
	}
	fc.assumeNote("sort.Slice: result is a permutation of the input (ordering not used)")
	s.results = nil
	return true
}

func modelSortStrings(fc *FnCtx, s *CallSite) bool {
	sl := s.args[0]
	mem := fc.memVar(types.Typ[types.String])
	m0 := fc.lookup(mem)
	row := fc.freshConst("sortedstr", ArraySort(SInt, SString))
	off := T(SInt, "(s_off %s)", sl.S)
	ln := T(SInt, "(s_len %s)", sl.S)
	fc.assume(T(SBool, "(forall ((i Int) (j Int)) (=> (and (<= 0 i) (< i j) (< j %s)) (str.<= (select %s (ix %s i)) (select %s (ix %s j)))))", ln.S, row.S, off.S, row.S, off.S))
	fc.eng.ixDecl()
	fc.assign(mem, Store(m0, T(SInt, "(s_arr %s)", sl.S), row))
	s.results = nil
	return true
}

// sort.Sort(x): effects are those of x.Swap; the ordering facts are added by
// the contract of the caller (see "calls sort.Sort#k: ensures") or by the
// RootSorter-specific model in C12.
func modelSortSort(fc *FnCtx, s *CallSite) bool {
	ws := sortWrites(fc, s.instr)
	if ws == nil {
		return false
	}
	fc.applyWriteSet(ws)
	s.results = nil
	return true
}

// hashDecls: MD5 and HMAC-SHA1 are uninterpreted; only the relation between
// the raw digest and its lowercase hex rendering is axiomatised.
func (e *Engine) hashDecls() {
	e.declBuiltin("md5hex")
	e.declBuiltin("hexlower")
	e.GDecl("md5sum", "(declare-fun md5sum (String) (Array Int Int))")
	e.GDecl("md5raw", "(declare-fun md5raw (String) String)")
	e.GDecl("hexarr", "(declare-fun hexarr ((Array Int Int)) String)")
	e.GAxiom("hexarr_md5sum", "(assert (forall ((s String)) (! (= (hexarr (md5sum s)) (md5hex s)) :pattern ((md5sum s)))))", "md5sum")
	e.GAxiom("hexlower_md5raw", "(assert (forall ((s String)) (! (= (hexlower (md5raw s)) (md5hex s)) :pattern ((md5raw s)))))", "md5raw")
	e.GAxiom("md5hex_shape", "(assert (forall ((s String)) (! (str.in_re (md5hex s) ((_ re.loop 32 32) (re.union (re.range \"0\" \"9\") (re.range \"a\" \"f\")))) :pattern ((md5hex s)))))", "md5hex")
}

func writtenWS(fc *FnCtx, c ssa.CallInstruction) *WriteSet {
	ws := newWS()
	ws.add(fc.libStateVar("written"))
	return ws
}

func (e *Engine) digestDecls() {
	e.hashDecls()
	e.declBuiltin("hmacsha1hex")
	e.GDecl("hashalg", "(declare-fun hashalg (Int) Int)")
	e.GDecl("hashkey", "(declare-fun hashkey (Int) String)")
	e.GDecl("digestraw", "(declare-fun digestraw (Int String String) String)")
	e.GAxiom("digest_md5", "(assert (forall ((m String)) (! (= (digestraw 1 \"\" m) (md5raw m)) :pattern ((digestraw 1 \"\" m)))))", "digestraw")
	e.GAxiom("digest_hmacsha1", "(assert (forall ((k String) (m String)) (! (= (hexlower (digestraw 12 k m)) (hmacsha1hex k m)) :pattern ((digestraw 12 k m)))))", "digestraw")
	e.GAxiom("hmacsha1hex_shape", "(assert (forall ((k String) (m String)) (! (str.in_re (hmacsha1hex k m) ((_ re.loop 40 40) (re.union (re.range \"0\" \"9\") (re.range \"a\" \"f\")))) :pattern ((hmacsha1hex k m)))))", "hmacsha1hex")
}

// newHash: md5.New / sha1.New / hmac.New(alg, key).
func newHash(fc *FnCtx, s *CallSite, alg int, key Term) bool {
	fc.eng.digestDecls()
	h := fc.newRef()
	w := fc.libStateVar("written")
	fc.assign(w, Store(fc.lookup(w), h, StrLit("")))
	fc.assume(T(SBool, "(and (= (hashalg %s) %d) (= (hashkey %s) %s))", h.S, alg, h.S, key.S))
	s.results = []Term{h}
	fc.assumeNote("MD5/SHA1/HMAC are uninterpreted functions of (key, message); collision resistance and unforgeability are cryptographic assumptions")
	return true
}

func modelWriterWrite(fc *FnCtx, s *CallSite) bool {
	if s.recv == nil {
		return false
	}
	w := fc.libStateVar("written")
	m := fc.lookup(w)
	fc.assign(w, Store(m, *s.recv, T(SString, "(str.++ %s %s)", Select(m, *s.recv).S, fc.bstr(s.args[0]).S)))
	n := fc.freshConst("wn", SInt)
	er := fc.freshConst("werr", SInt)
	// a Writer may fail; a hash.Hash never does
	fc.eng.GDecl("hashalg", "(declare-fun hashalg (Int) Int)")
	fc.assume(T(SBool, "(and (>= %s 0) (<= 0 %s) (<= %s (s_len %s)) (=> (= %s 0) (= %s (s_len %s))) (=> (> (hashalg %s) 0) (= %s 0)))", er.S, n.S, n.S, s.args[0].S, er.S, n.S, s.args[0].S, s.recv.S, er.S))
	s.results = []Term{n, er}
	return true
}

func modelHashSum(fc *FnCtx, s *CallSite) bool {
	fc.eng.digestDecls()
	h := *s.recv
	w := fc.libStateVar("written")
	msg := Select(fc.lookup(w), h)
	r := fc.newRef()
	mem := fc.memVar(types.Typ[types.Uint8])
	row := fc.freshConst("digest", ArraySort(SInt, SInt))
	fc.assign(mem, Store(fc.lookup(mem), r, row))
	ln := fc.freshConst("dlen", SInt)
	fc.bstrDecl()
	// Sum(b) appends to b; only Sum(nil) is modelled exactly
	fc.assume(T(SBool, "(=> (= (s_len %s) 0) (and (>= %s 0) (= (bstr %s 0 %s) (digestraw (hashalg %s) (hashkey %s) %s))))", s.args[0].S, ln.S, row.S, ln.S, h.S, h.S, msg.S))
	s.results = []Term{T(SSlice, "(mkslice %s 0 %s %s)", r.S, ln.S, ln.S)}
	return true
}
