package main

// Lemmas: closed formulas proved once (validity), independent of any function.

import (
	"context"
	"fmt"
	"regexp"
	"go/types"
	"os/exec"
	"time"
	"bytes"
	"strings"

	"golang.org/x/tools/go/ssa"
)

var symRe = regexp.MustCompile(`[A-Za-z_][A-Za-z0-9_!]*`)

func (e *Engine) lemmaObligations(prop string) []*Obligation {
	var out []*Obligation
	for _, lm := range e.Lemmas {
		if !hasStr(lm.Props, prop) {
			continue
		}
		p := e.Pkgs[lm.PkgPath]
		if p == nil {
			continue
		}
		fc := &FnCtx{eng: e, name: p.Types.Name() + ".lemma." + lm.Name, tpkg: p.Types,
			svSort: map[string]Sort{}, svHeap: map[string]bool{}, nextInc: map[string]int{}, declared: map[string]bool{},
			vals: map[ssa.Value]Val{}, counters: map[string]int{}, assumptions: map[string]bool{}, ghostTypes: map[string]types.Type{},
			safety: map[string]bool{}, localAllocs: map[string][]*ssa.Alloc{}}
		b := fc.newBlock("entry")
		fc.cur = b
		fc.env = &Env{inc: map[string]string{}, places: map[string]*Place{}}
		var ob *Obligation
		func() {
			defer func() {
				if r := recover(); r != nil {
					if te, ok := r.(transErr); ok {
						ob = &Obligation{Name: fc.name, Kind: "lemma", Func: fc.name, Desc: string(te), Block: b, Cond: FalseT, fc: fc, Status: "unknown", Model: string(te)}
						return
					}
					panic(r)
				}
			}()
			sc := &Scope{fc: fc, mode: "global", env: fc.env, pkg: p.Types}
			t := sc.trBool(lm.Cl.E)
			ob = fc.assert("lemma", fc.name, t, lm.Cl.Src, 0, false)
		}()
		ob.Props = lm.Props
		out = append(out, ob)
	}
	return out
}

func runSolverSimple(sp solverSpec, file string, timeoutSec int) solverAnswer {
	args := sp.args(file, timeoutSec, 0)
	ctx, cancel := context.WithTimeout(context.Background(), time.Duration(timeoutSec+2)*time.Second)
	defer cancel()
	cmd := exec.CommandContext(ctx, args[0], args[1:]...)
	var out bytes.Buffer
	cmd.Stdout = &out
	cmd.Stderr = &out
	start := time.Now()
	cmd.Run()
	first := strings.TrimSpace(strings.SplitN(out.String(), "\n", 2)[0])
	return solverAnswer{solver: sp.name, answer: first, output: out.String(), ms: time.Since(start).Milliseconds()}
}

func (e *Engine) dummyCtx(pkgPath, name string) *FnCtx {
	p := e.Pkgs[pkgPath]
	fc := &FnCtx{eng: e, name: name,
		svSort: map[string]Sort{}, svHeap: map[string]bool{}, nextInc: map[string]int{}, declared: map[string]bool{},
		vals: map[ssa.Value]Val{}, counters: map[string]int{}, assumptions: map[string]bool{}, ghostTypes: map[string]types.Type{},
		safety: map[string]bool{}, localAllocs: map[string][]*ssa.Alloc{}}
	if p != nil {
		fc.tpkg = p.Types
	}
	b := fc.newBlock("entry")
	fc.cur = b
	fc.env = &Env{inc: map[string]string{}, places: map[string]*Place{}}
	return fc
}

// LoadAxioms translates the axiom clauses of all contract files whose package
// is loaded.  An axiom is included in a query when one of the spec functions
// it mentions occurs there.
func (e *Engine) LoadAxioms() error {
	for i, ax := range e.Axioms {
		p := e.Pkgs[ax.PkgPath]
		if p == nil {
			continue
		}
		fc := e.dummyCtx(ax.PkgPath, "axiom")
		var err error
		func() {
			defer func() {
				if r := recover(); r != nil {
					if te, ok := r.(transErr); ok {
						err = fmt.Errorf("%s:%d: axiom: %s", ax.Cl.File, ax.Cl.Line, string(te))
						return
					}
					panic(r)
				}
			}()
			sc := &Scope{fc: fc, mode: "global", env: fc.env, pkg: p.Types}
			t := sc.trBool(ax.Cl.E)
			if len(fc.decls) > 0 {
				err = fmt.Errorf("%s:%d: axiom mentions program state", ax.Cl.File, ax.Cl.Line)
				return
			}
			var keys []string
			for _, w := range symRe.FindAllString(t.S, -1) {
				if strings.HasPrefix(w, "sf_") || strings.HasPrefix(w, "pf_") {
					keys = append(keys, w)
				}
			}
			if len(keys) == 0 {
				err = fmt.Errorf("%s:%d: axiom mentions no spec function", ax.Cl.File, ax.Cl.Line)
				return
			}
			e.GAxiom(fmt.Sprintf("user_axiom_%d", i), "(assert "+t.S+")", keys...)
		}()
		if err != nil {
			return err
		}
	}
	return nil
}
