package main

// Lemmas: closed formulas proved once (validity), independent of any function.

import (
	"context"
	"go/types"
	"os/exec"
	"time"
	"bytes"
	"strings"

	"golang.org/x/tools/go/ssa"
)

func (e *Engine) lemmaObligations(prop string) []*Obligation {
	var out []*Obligation
	for _, lm := range e.Lemmas {
		if !hasStr(lm.Props, prop) {
			continue
		}
		p := e.Pkgs[lm.PkgPath]
		if p == nil {
			continue
		}
		fc := &FnCtx{eng: e, name: p.Types.Name() + ".lemma." + lm.Name, tpkg: p.Types,
			svSort: map[string]Sort{}, svHeap: map[string]bool{}, nextInc: map[string]int{}, declared: map[string]bool{},
			vals: map[ssa.Value]Val{}, counters: map[string]int{}, assumptions: map[string]bool{}, ghostTypes: map[string]types.Type{},
			safety: map[string]bool{}, localAllocs: map[string][]*ssa.Alloc{}}
		b := fc.newBlock("entry")
		fc.cur = b
		fc.env = &Env{inc: map[string]string{}, places: map[string]*Place{}}
		var ob *Obligation
		func() {
			defer func() {
				if r := recover(); r != nil {
					if te, ok := r.(transErr); ok {
						ob = &Obligation{Name: fc.name, Kind: "lemma", Func: fc.name, Desc: string(te), Block: b, Cond: FalseT, fc: fc, Status: "unknown", Model: string(te)}
						return
					}
					panic(r)
				}
			}()
			sc := &Scope{fc: fc, mode: "global", env: fc.env, pkg: p.Types}
			t := sc.trBool(lm.Cl.E)
			ob = fc.assert("lemma", fc.name, t, lm.Cl.Src, 0, false)
		}()
		ob.Props = lm.Props
		out = append(out, ob)
	}
	return out
}

func runSolverSimple(sp solverSpec, file string, timeoutSec int) solverAnswer {
	args := sp.args(file, timeoutSec, 0)
	ctx, cancel := context.WithTimeout(context.Background(), time.Duration(timeoutSec+2)*time.Second)
	defer cancel()
	cmd := exec.CommandContext(ctx, args[0], args[1:]...)
	var out bytes.Buffer
	cmd.Stdout = &out
	cmd.Stderr = &out
	start := time.Now()
	cmd.Run()
	first := strings.TrimSpace(strings.SplitN(out.String(), "\n", 2)[0])
	return solverAnswer{solver: sp.name, answer: first, output: out.String(), ms: time.Since(start).Milliseconds()}
}
