package main

// Mechanical compilation of Go regexp literals (RE2 syntax) into SMT-LIB
// regular expressions, plus a group decomposition for FindStringSubmatch.

import (
	"fmt"
	"regexp/syntax"
	"strings"
)

func smtChar(r rune) string {
	if r > 0x2FFFF {
		r = 0x2FFFF
	}
	if r >= 0x20 && r < 0x7f && r != '"' && r != '\\' {
		return "\"" + string(r) + "\""
	}
	return fmt.Sprintf("\"\\u{%x}\"", r)
}

func smtStrLit(rs []rune) string {
	var b strings.Builder
	b.WriteByte('"')
	for _, r := range rs {
		if r >= 0x20 && r < 0x7f && r != '"' && r != '\\' {
			b.WriteRune(r)
		} else {
			fmt.Fprintf(&b, "\\u{%x}", r)
		}
	}
	b.WriteByte('"')
	return b.String()
}

func hasCapture(re *syntax.Regexp) bool {
	if re.Op == syntax.OpCapture {
		return true
	}
	for _, s := range re.Sub {
		if hasCapture(s) {
			return true
		}
	}
	return false
}

// reLang compiles a node to an SMT RegLan term (anchors are not allowed here).
func reLang(re *syntax.Regexp) (string, error) {
	switch re.Op {
	case syntax.OpNoMatch:
		return "re.none", nil
	case syntax.OpEmptyMatch:
		return "(str.to_re \"\")", nil
	case syntax.OpLiteral:
		if re.Flags&syntax.FoldCase != 0 {
			return "", fmt.Errorf("case folding not supported")
		}
		return "(str.to_re " + smtStrLit(re.Rune) + ")", nil
	case syntax.OpCharClass:
		var parts []string
		for i := 0; i+1 < len(re.Rune); i += 2 {
			lo, hi := re.Rune[i], re.Rune[i+1]
			if lo > 0x2FFFF {
				continue
			}
			if lo == hi {
				parts = append(parts, "(str.to_re "+smtChar(lo)+")")
			} else {
				parts = append(parts, "(re.range "+smtChar(lo)+" "+smtChar(hi)+")")
			}
		}
		switch len(parts) {
		case 0:
			return "re.none", nil
		case 1:
			return parts[0], nil
		}
		return "(re.union " + strings.Join(parts, " ") + ")", nil
	case syntax.OpAnyCharNotNL:
		return "(re.diff re.allchar (str.to_re \"\\u{a}\"))", nil
	case syntax.OpAnyChar:
		return "re.allchar", nil
	case syntax.OpCapture:
		return reLang(re.Sub[0])
	case syntax.OpStar:
		s, err := reLang(re.Sub[0])
		return "(re.* " + s + ")", err
	case syntax.OpPlus:
		s, err := reLang(re.Sub[0])
		return "(re.+ " + s + ")", err
	case syntax.OpQuest:
		s, err := reLang(re.Sub[0])
		return "(re.opt " + s + ")", err
	case syntax.OpRepeat:
		s, err := reLang(re.Sub[0])
		if err != nil {
			return "", err
		}
		if re.Max < 0 {
			return fmt.Sprintf("(re.++ ((_ re.loop %d %d) %s) (re.* %s))", re.Min, re.Min, s, s), nil
		}
		return fmt.Sprintf("((_ re.loop %d %d) %s)", re.Min, re.Max, s), nil
	case syntax.OpConcat:
		var parts []string
		for _, sub := range re.Sub {
			s, err := reLang(sub)
			if err != nil {
				return "", err
			}
			parts = append(parts, s)
		}
		if len(parts) == 1 {
			return parts[0], nil
		}
		return "(re.++ " + strings.Join(parts, " ") + ")", nil
	case syntax.OpAlternate:
		var parts []string
		for _, sub := range re.Sub {
			s, err := reLang(sub)
			if err != nil {
				return "", err
			}
			parts = append(parts, s)
		}
		return "(re.union " + strings.Join(parts, " ") + ")", nil
	case syntax.OpBeginText, syntax.OpEndText, syntax.OpBeginLine, syntax.OpEndLine, syntax.OpWordBoundary, syntax.OpNoWordBoundary:
		return "", fmt.Errorf("anchor/boundary in unsupported position")
	}
	return "", fmt.Errorf("unsupported regexp op %v", re.Op)
}

// stripAnchors removes ^ at the start and $ at the end of the top-level
// concatenation and reports which were present.
func stripAnchors(re *syntax.Regexp) (body *syntax.Regexp, begin, end bool) {
	subs := []*syntax.Regexp{re}
	if re.Op == syntax.OpConcat {
		subs = append([]*syntax.Regexp{}, re.Sub...)
	}
	if len(subs) > 0 && subs[0].Op == syntax.OpBeginText {
		begin = true
		subs = subs[1:]
	}
	if len(subs) > 0 && subs[len(subs)-1].Op == syntax.OpEndText {
		end = true
		subs = subs[:len(subs)-1]
	}
	switch len(subs) {
	case 0:
		return &syntax.Regexp{Op: syntax.OpEmptyMatch}, begin, end
	case 1:
		return subs[0], begin, end
	}
	return &syntax.Regexp{Op: syntax.OpConcat, Sub: subs}, begin, end
}

func parseRegex(pat string) (*syntax.Regexp, error) {
	re, err := syntax.Parse(pat, syntax.Perl)
	if err != nil {
		return nil, err
	}
	return re, nil
}

// regexToSMT: the language of the pattern used as a full match (anchors at
// the two ends are dropped).
func regexToSMT(pat string) (string, error) {
	re, err := parseRegex(pat)
	if err != nil {
		return "", err
	}
	body, _, _ := stripAnchors(re)
	return reLang(body)
}

// regexSearchToSMT: the set of strings in which the pattern matches somewhere
// (MatchString semantics).
func regexSearchToSMT(pat string) (string, error) {
	re, err := parseRegex(pat)
	if err != nil {
		return "", err
	}
	body, begin, end := stripAnchors(re)
	l, err := reLang(body)
	if err != nil {
		return "", err
	}
	parts := []string{}
	if !begin {
		parts = append(parts, "re.all")
	}
	parts = append(parts, l)
	if !end {
		parts = append(parts, "re.all")
	}
	if len(parts) == 1 {
		return l, nil
	}
	return "(re.++ " + strings.Join(parts, " ") + ")", nil
}

// fixedLen: the length of every string in the node's language, if it is fixed.
func fixedLen(re *syntax.Regexp) (int, bool) {
	switch re.Op {
	case syntax.OpEmptyMatch:
		return 0, true
	case syntax.OpLiteral:
		return len(re.Rune), true
	case syntax.OpCharClass, syntax.OpAnyChar, syntax.OpAnyCharNotNL:
		return 1, true
	case syntax.OpCapture:
		return fixedLen(re.Sub[0])
	case syntax.OpRepeat:
		if re.Min == re.Max {
			if n, ok := fixedLen(re.Sub[0]); ok {
				return n * re.Min, true
			}
		}
	case syntax.OpConcat:
		t := 0
		for _, s := range re.Sub {
			n, ok := fixedLen(s)
			if !ok {
				return 0, false
			}
			t += n
		}
		return t, true
	}
	return 0, false
}

type regexDecomp struct {
	whole  string // search language
	m0     Term
	groups []Term
	facts  []Term
}

// regexDecompose: a decomposition of the subject string consistent with the
// group structure of the pattern.
func regexDecompose(fc *FnCtx, pat string, subject Term) (*regexDecomp, error) {
	re, err := parseRegex(pat)
	if err != nil {
		return nil, err
	}
	whole, err := regexSearchToSMT(pat)
	if err != nil {
		return nil, err
	}
	body, begin, end := stripAnchors(re)
	d := &regexDecomp{whole: whole}
	ncap := re.MaxCap()
	d.groups = make([]Term, ncap)
	for i := range d.groups {
		d.groups[i] = StrLit("")
	}
	var walk func(n *syntax.Regexp, optional bool) (Term, error)
	walk = func(n *syntax.Regexp, optional bool) (Term, error) {
		if !hasCapture(n) {
			if n.Op == syntax.OpLiteral && n.Flags&syntax.FoldCase == 0 {
				return StrLit(string(n.Rune)), nil
			}
			l, err := reLang(n)
			if err != nil {
				return Term{}, err
			}
			x := fc.freshConst("rx", SString)
			d.facts = append(d.facts, T(SBool, "(str.in_re %s %s)", x.S, l))
			if k, ok := fixedLen(n); ok {
				d.facts = append(d.facts, T(SBool, "(= (str.len %s) %d)", x.S, k))
			}
			return x, nil
		}
		switch n.Op {
		case syntax.OpCapture:
			inner, err := walk(n.Sub[0], optional)
			if err != nil {
				return Term{}, err
			}
			d.groups[n.Cap-1] = inner
			return inner, nil
		case syntax.OpConcat:
			var ts []string
			for _, sub := range n.Sub {
				t, err := walk(sub, optional)
				if err != nil {
					return Term{}, err
				}
				ts = append(ts, t.S)
			}
			return T(SString, "(str.++ %s)", strings.Join(ts, " ")), nil
		case syntax.OpQuest:
			// (e)? with e capture-free inside: the group is exactly what the
			// optional part matched (empty when it did not take part)
			if c := n.Sub[0]; c.Op == syntax.OpCapture && !hasCapture(c.Sub[0]) {
				l, err := reLang(n)
				if err != nil {
					return Term{}, err
				}
				x := fc.freshConst("rx", SString)
				d.facts = append(d.facts, T(SBool, "(str.in_re %s %s)", x.S, l))
				d.groups[c.Cap-1] = x
				return x, nil
			}
			fallthrough
		default:
			// alternation / repetition containing groups: the node matches some
			// x in its language; each inner group is empty or a substring of x
			// in the group's language
			l, err := reLang(n)
			if err != nil {
				return Term{}, err
			}
			x := fc.freshConst("rx", SString)
			d.facts = append(d.facts, T(SBool, "(str.in_re %s %s)", x.S, l))
			var inner func(m *syntax.Regexp) error
			inner = func(m *syntax.Regexp) error {
				if m.Op == syntax.OpCapture {
					gl, err := reLang(m.Sub[0])
					if err != nil {
						return err
					}
					g := fc.freshConst("rg", SString)
					d.facts = append(d.facts, T(SBool, "(or (= %s \"\") (and (str.in_re %s %s) (str.contains %s %s)))", g.S, g.S, gl, x.S, g.S))
					d.groups[m.Cap-1] = g
				}
				for _, s := range m.Sub {
					if err := inner(s); err != nil {
						return err
					}
				}
				return nil
			}
			for _, s := range n.Sub {
				if err := inner(s); err != nil {
					return Term{}, err
				}
			}
			return x, nil
		}
	}
	m0, err := walk(body, false)
	if err != nil {
		return nil, err
	}
	m0c := fc.freshConst("m0", SString)
	d.facts = append(d.facts, Eq(m0c, m0))
	d.m0 = m0c
	var parts []string
	if !begin {
		pre := fc.freshConst("rpre", SString)
		parts = append(parts, pre.S)
	}
	parts = append(parts, m0c.S)
	if !end {
		post := fc.freshConst("rpost", SString)
		parts = append(parts, post.S)
		// Greedy tail: when the pattern ends in a greedy repetition of a
		// single-character class (".*", "[0-9]+" ...), the match extends as
		// far as that class allows: what follows the match is empty or starts
		// with a character outside the class.
		if cls, ok := greedyTailClass(body); ok {
			d.facts = append(d.facts, T(SBool, "(or (= %s \"\") (not (str.in_re (str.at %s 0) %s)))", post.S, post.S, cls))
		}
	}
	if len(parts) == 1 {
		d.facts = append(d.facts, Eq(subject, m0c))
	} else {
		d.facts = append(d.facts, T(SBool, "(= %s (str.++ %s))", subject.S, strings.Join(parts, " ")))
	}
	return d, nil
}

// greedyTailClass: the character class of a greedy star/plus that ends the
// pattern (looking through captures and concatenations).
func greedyTailClass(re *syntax.Regexp) (string, bool) {
	for {
		switch re.Op {
		case syntax.OpCapture:
			re = re.Sub[0]
			continue
		case syntax.OpConcat:
			if len(re.Sub) == 0 {
				return "", false
			}
			re = re.Sub[len(re.Sub)-1]
			continue
		case syntax.OpStar, syntax.OpPlus:
			if re.Flags&syntax.NonGreedy != 0 {
				return "", false
			}
			sub := re.Sub[0]
			for sub.Op == syntax.OpCapture {
				sub = sub.Sub[0]
			}
			switch sub.Op {
			case syntax.OpCharClass, syntax.OpAnyChar, syntax.OpAnyCharNotNL:
				l, err := reLang(sub)
				if err != nil {
					return "", false
				}
				return l, true
			case syntax.OpLiteral:
				if len(sub.Rune) == 1 && sub.Flags&syntax.FoldCase == 0 {
					l, err := reLang(sub)
					if err != nil {
						return "", false
					}
					return l, true
				}
			}
			return "", false
		}
		return "", false
	}
}
