package main

// Static write sets: which state variables a piece of code may assign.  Used
// for loop havoc, for goroutine bodies (volatile memory) and for calls to
// functions without a contract.

import (
	"go/types"
	"sort"
	"strings"

	"golang.org/x/tools/go/ssa"
)

type WriteSet struct {
	ElemsOf []string // parameter names: only the elements of these slices are written
	Except map[string]bool // with All: heap variables that are nevertheless preserved
	Fresh map[string]bool // variables written only at references allocated during the call
	All   bool
	Names map[string]bool
	Sorts map[string]Sort
	Types map[string]types.Type // for local cells: Go type (for range facts after havoc)
}

func newWS() *WriteSet {
	return &WriteSet{Names: map[string]bool{}, Sorts: map[string]Sort{}, Types: map[string]types.Type{}, Fresh: map[string]bool{}}
}

func (w *WriteSet) add(name string) { w.Names[name] = true }
func (w *WriteSet) has(name string) bool {
	if w == nil {
		return false
	}
	if w.All && (strings.HasPrefix(name, "H_") || strings.HasPrefix(name, "P_") || strings.HasPrefix(name, "Mem_") || strings.HasPrefix(name, "Map") || strings.HasPrefix(name, "X_")) {
		return true
	}
	return w.Names[name]
}
func (w *WriteSet) union(o *WriteSet) {
	if o == nil {
		return
	}
	if o.All {
		if !w.All {
			w.Except = o.Except
		} else if w.Except != nil {
			// keep only what both preserve
			for k := range w.Except {
				if o.Except == nil || !o.Except[k] {
					delete(w.Except, k)
				}
			}
		}
		w.All = true
	}
	for k := range o.Names {
		if w.Names[k] && w.Fresh[k] && !o.Fresh[k] {
			delete(w.Fresh, k)
		} else if !w.Names[k] && o.Fresh[k] {
			w.Fresh[k] = true
		}
		w.Names[k] = true
	}
	for k, v := range o.Types {
		w.Types[k] = v
	}
	for k, v := range o.Sorts {
		w.Sorts[k] = v
	}
}
func (w *WriteSet) sorted() []string {
	ks := make([]string, 0, len(w.Names))
	for k := range w.Names {
		ks = append(ks, k)
	}
	sort.Strings(ks)
	return ks
}

// ptrTargets: variables a store through a pointer *term* of element type t writes.
func (fc *FnCtx) ptrTargets(t types.Type, ws *WriteSet) {
	u := fc.eng.U
	if si := u.StructOf(t); si != nil && !opaqueNamed(t) {
		for i := range si.Fields {
			ws.add(fc.heapFieldVar(si, i))
		}
		return
	}
	ws.add(fc.starVar(t))
}

type sbase struct {
	root string     // state var that contains the location, or "" for a pointer term
	elem types.Type // for pointer terms: pointee type
}

// staticBases resolves an address-valued SSA value to the containers it may
// point into.
func (fc *FnCtx) staticBases(v ssa.Value, seen map[ssa.Value]bool) []sbase {
	if seen[v] {
		return nil
	}
	seen[v] = true
	pt, _ := v.Type().Underlying().(*types.Pointer)
	var elem types.Type
	if pt != nil {
		elem = pt.Elem()
	}
	u := fc.eng.U
	switch x := v.(type) {
	case *ssa.Alloc:
		if !x.Heap && x.Parent() == fc.fn {
			return []sbase{{root: fc.cellName(x)}}
		}
		if n, ok := fc.eng.sharedCell(x); ok {
			fc.stateVar(n, u.SortOf(elem), false)
			return []sbase{{root: n}}
		}
		return []sbase{{elem: elem}}
	case *ssa.FreeVar:
		if n, ok := fc.eng.sharedCell(x); ok {
			fc.stateVar(n, u.SortOf(elem), false)
			return []sbase{{root: n}}
		}
		return []sbase{{elem: elem}}
	case *ssa.Global:
		return []sbase{{root: "G!"}}
	case *ssa.FieldAddr:
		var out []sbase
		for _, b := range fc.staticBases(x.X, seen) {
			if b.root != "" {
				out = append(out, b)
				continue
			}
			st := x.X.Type().Underlying().(*types.Pointer).Elem()
			si := u.StructOf(st)
			if si == nil || opaqueNamed(st) {
				out = append(out, sbase{root: "opaque!"})
				continue
			}
			out = append(out, sbase{root: fc.heapFieldVar(si, x.Field)})
		}
		return out
	case *ssa.IndexAddr:
		switch xt := x.X.Type().Underlying().(type) {
		case *types.Slice:
			return []sbase{{root: fc.memVar(xt.Elem())}}
		case *types.Pointer:
			var out []sbase
			for _, b := range fc.staticBases(x.X, seen) {
				if b.root != "" {
					out = append(out, b)
				} else {
					out = append(out, sbase{root: fc.starVar(xt.Elem())})
				}
			}
			return out
		}
	case *ssa.UnOp:
		if a, ok := x.X.(*ssa.Alloc); ok && !a.Heap && a.Parent() == fc.fn {
			// pointer loaded from a local cell: follow the stores into it
			var out []sbase
			found := false
			for _, b := range fc.fn.Blocks {
				for _, in := range b.Instrs {
					if st, ok := in.(*ssa.Store); ok && st.Addr == a {
						found = true
						out = append(out, fc.staticBases(st.Val, seen)...)
					}
				}
			}
			if found && len(out) > 0 {
				return out
			}
		}
		return []sbase{{elem: elem}}
	case *ssa.Phi:
		var out []sbase
		for _, e := range x.Edges {
			out = append(out, fc.staticBases(e, seen)...)
		}
		return out
	case *ssa.Extract:
		return []sbase{{elem: elem}}
	}
	return []sbase{{elem: elem}}
}

func (fc *FnCtx) storeTargets(addr ssa.Value, ws *WriteSet) {
	for _, b := range fc.staticBases(addr, map[ssa.Value]bool{}) {
		if b.root != "" {
			ws.add(b.root)
			continue
		}
		if b.elem != nil {
			fc.ptrTargets(b.elem, ws)
		} else {
			ws.All = true
		}
	}
}

// instrWrites adds the effect of one instruction.
func (fc *FnCtx) instrWrites(in ssa.Instruction, ws *WriteSet, inOwnFn bool) {
	switch x := in.(type) {
	case *ssa.Alloc:
		ws.add("alloc")
		if !x.Heap && inOwnFn {
			n := fc.cellName(x)
			ws.add(n)
			ws.Types[n] = x.Type().Underlying().(*types.Pointer).Elem()
		} else if x.Heap {
			if n, ok := fc.eng.sharedCell(x); ok {
				fc.stateVar(n, fc.eng.U.SortOf(x.Type().Underlying().(*types.Pointer).Elem()), false)
				ws.add(n)
				ws.Types[n] = x.Type().Underlying().(*types.Pointer).Elem()
			} else {
				fc.ptrTargets(x.Type().Underlying().(*types.Pointer).Elem(), ws)
			}
		}
	case *ssa.Select:
		if fc.contract != nil && inOwnFn {
			for _, aa := range fc.contract.Asserts {
				if aa.Anchor == "select" && aa.Set != nil {
					ws.add("g_" + aa.Set.Name)
				}
			}
		}
	case *ssa.Store:
		if fc.contract != nil && inOwnFn {
			if a, ok := x.Addr.(*ssa.Alloc); ok && a.Comment != "" {
				for _, aa := range fc.contract.Asserts {
					if aa.Anchor == "assign" && aa.Var == a.Comment && aa.Set != nil {
						ws.add("g_" + aa.Set.Name)
					}
				}
			}
			if fa, ok := x.Addr.(*ssa.FieldAddr); ok {
				n := fieldAddrName(fa)
				for _, aa := range fc.contract.Asserts {
					if aa.Anchor == "assign" && n != "" && aa.Var == n && aa.Set != nil {
						ws.add("g_" + aa.Set.Name)
					}
				}
			}
		}
		tmp := newWS()
		fc.storeTargets(x.Addr, tmp)
		for n := range tmp.Names {
			if strings.HasPrefix(n, "c_") {
				if !inOwnFn {
					continue
				}
				if a, ok := x.Addr.(*ssa.Alloc); ok {
					ws.Types[n] = a.Type().Underlying().(*types.Pointer).Elem()
				}
			}
			ws.add(n)
		}
		if tmp.All {
			ws.All = true
		}
	case *ssa.MapUpdate:
		d, v, l := fc.mapVars(x.Map.Type().Underlying().(*types.Map))
		ws.add(d)
		ws.add(v)
		ws.add(l)
	case *ssa.MakeMap, *ssa.MakeChan, *ssa.MakeClosure:
		ws.add("alloc")
		if mm, ok := x.(*ssa.MakeMap); ok {
			d, _, l := fc.mapVars(mm.Type().Underlying().(*types.Map))
			ws.add(d)
			ws.add(l)
		}
	case *ssa.MakeSlice:
		ws.add("alloc")
		ws.add(fc.memVar(x.Type().Underlying().(*types.Slice).Elem()))
	case *ssa.Slice:
		if pt, ok := x.X.Type().Underlying().(*types.Pointer); ok {
			ws.add("alloc")
			ws.add(fc.memVar(pt.Elem().Underlying().(*types.Array).Elem()))
		}
	case *ssa.Convert:
		if st, ok := x.Type().Underlying().(*types.Slice); ok {
			ws.add("alloc")
			ws.add(fc.memVar(st.Elem()))
		}
	case *ssa.Range:
		if inOwnFn {
			n := "iter_" + x.Name()
			fc.stateVar(n, SInt, false)
			ws.add(n)
		}
	case *ssa.Next:
		if inOwnFn {
			if r, ok := x.Iter.(*ssa.Range); ok {
				n := "iter_" + r.Name()
				fc.stateVar(n, SInt, false)
				ws.add(n)
			}
		}
	case *ssa.Phi:
		if inOwnFn {
			ws.add(fc.phiVar(x))
		}
	case *ssa.Call:
		ws.union(fc.callWrites(x))
	case *ssa.Go:
		ws.union(fc.callWrites(x))
		if fc.contract != nil && inOwnFn {
			for _, cs := range fc.siteSpecs(x) {
				for _, st := range cs.Sets {
					ws.add("g_" + st.Name)
				}
			}
		}
	case *ssa.Defer:
		// effects happen at rundefers
	case *ssa.RunDefers:
		if inOwnFn {
			for _, b := range fc.fn.Blocks {
				for _, in2 := range b.Instrs {
					if d, ok := in2.(*ssa.Defer); ok {
						ws.union(fc.callWrites(d))
					}
				}
			}
		}
	}
}

func (fc *FnCtx) loopWriteSet(li *LoopInfo) *WriteSet {
	ws := newWS()
	for b := range li.Blocks {
		for _, in := range b.Instrs {
			fc.instrWrites(in, ws, true)
		}
	}
	if fc.contract != nil {
		// ghost updates anchored at the exit of a loop (conservatively: any loop)
		for _, aa := range fc.contract.Asserts {
			if aa.Anchor == "loopexit" && aa.Set != nil {
				ws.add("g_" + aa.Set.Name)
			}
		}
	}
	return ws
}

// funcWrites: heap effects of calling fn (body scanned transitively).
func (fc *FnCtx) funcWrites(fn *ssa.Function, depth int) *WriteSet {
	e := fc.eng
	if ws, ok := e.writeSetMemo[fn]; ok {
		if ws == nil { // recursion in progress
			return newWS()
		}
		return ws
	}
	if len(fn.Blocks) == 0 || depth > 6 {
		ws := newWS()
		ws.All = true
		return ws
	}
	e.writeSetMemo[fn] = nil
	// a throw-away context for the callee so that cell names do not leak
	sub := e.NewFnCtx(fn, nil)
	ws := newWS()
	for _, b := range fn.Blocks {
		for _, in := range b.Instrs {
			tmp := newWS()
			sub.instrWritesDepth(in, tmp, depth)
			for n := range tmp.Names {
				if strings.HasPrefix(n, "c_") || strings.HasPrefix(n, "phi_") || strings.HasPrefix(n, "iter_") || strings.HasPrefix(n, "g_") {
					continue
				}
				ws.add(n)
				if s, ok := sub.svSort[n]; ok {
					ws.Sorts[n] = s
				} else if s, ok := tmp.Sorts[n]; ok {
					ws.Sorts[n] = s
				}
			}
			if tmp.All {
				ws.All = true
			}
		}
	}
	e.writeSetMemo[fn] = ws
	return ws
}

func (fc *FnCtx) instrWritesDepth(in ssa.Instruction, ws *WriteSet, depth int) {
	if c, ok := in.(ssa.CallInstruction); ok {
		ws.union(fc.callWritesDepth(c, depth+1))
		return
	}
	fc.instrWrites(in, ws, true)
}

func (fc *FnCtx) callWrites(c ssa.CallInstruction) *WriteSet { return fc.callWritesDepth(c, 0) }

func (fc *FnCtx) callWritesDepth(c ssa.CallInstruction, depth int) *WriteSet {
	ws := newWS()
	com := c.Common()
	if b, ok := com.Value.(*ssa.Builtin); ok {
		// ghost updates attached to a built-in call (calls append#k: set ...)
		if c.Parent() == fc.fn && fc.contract != nil {
			for _, cs := range fc.siteSpecs(c) {
				for _, s := range cs.Sets {
					ws.add("g_" + s.Name)
				}
			}
		}
		switch b.Name() {
		case "append":
			ws.add("alloc")
			ws.add(fc.memVar(com.Args[0].Type().Underlying().(*types.Slice).Elem()))
		case "copy":
			ws.add(fc.memVar(com.Args[0].Type().Underlying().(*types.Slice).Elem()))
		case "delete":
			d, _, l := fc.mapVars(com.Args[0].Type().Underlying().(*types.Map))
			ws.add(d)
			ws.add(l)
		}
		return ws
	}
	ws.add("alloc")
	// call-site clause "pure"
	if c.Parent() == fc.fn && fc.contract != nil {
		for _, cs := range fc.siteSpecs(c) {
			if cs.Pure {
				return ws
			}
			for _, s := range cs.Sets {
				ws.add("g_" + s.Name)
			}
		}
	}
	callee := fc.resolveCallee(c)
	keys := fc.calleeKeys(c, callee)
	if callee != nil {
		if ct := fc.eng.ContractForIn(callee, fnPkgPath(c.Parent())); ct != nil {
			if ct.HasMod {
				fc.modifiesToWS(ct, ws)
				if len(callee.Blocks) > 0 && !ct.Flags["trusted"] {
					body := fc.funcWrites(callee, depth)
					for _, n := range body.sorted() {
						if !ws.Names[n] {
							ws.add(n)
							ws.Fresh[n] = true
							if srt, ok := body.Sorts[n]; ok {
								ws.Sorts[n] = srt
							}
						}
					}
				}
				return ws
			}
			if ct.Flags["pure"] {
				return ws
			}
		}
	}
	for _, k := range keys {
		if ct := fc.eng.Assumed(fnPkgPath(c.Parent()), k); ct != nil {
			if ct.HasMod {
				fc.modifiesToWS(ct, ws)
				return ws
			}
			if ct.Flags["pure"] {
				return ws
			}
		}
		if h, ok := libWriteSets[k]; ok {
			if w := h(fc, c); w != nil {
				ws.union(w)
				return ws
			}
		}
		if _, ok := libModels[k]; ok {
			if _, has := libWriteSets[k]; !has {
				if _, pure := pureLib[k]; !pure {
					return ws
				}
			}
		}
		if eff, ok := libEffects(k); ok {
			for _, n := range eff {
				if n == "*" {
					ws.All = true
				} else if n != "" {
					ws.add(fc.libStateVar(n))
				}
			}
			return ws
		}
		if fc.eng.PureFuncs[k] {
			return ws
		}
	}
	if callee != nil && len(callee.Blocks) > 0 && strings.HasPrefix(qualifiedName(callee), repoModule) {
		ws.union(fc.funcWrites(callee, depth))
		return ws
	}
	ws.All = true
	return ws
}

func (fc *FnCtx) modifiesToWS(ct *FuncContract, ws *WriteSet) {
	for _, m := range ct.Modifies {
		fresh := false
		if strings.HasPrefix(m, "fresh(") && strings.HasSuffix(m, ")") {
			fresh = true
			m = m[6 : len(m)-1]
		}
		before := map[string]bool{}
		for k := range ws.Names {
			before[k] = true
		}
		defer func() {}()
		_ = before
		if strings.HasPrefix(m, "elems(") && strings.HasSuffix(m, ")") {
			// only the elements of the named slice parameter are written
			ws.ElemsOf = append(ws.ElemsOf, m[6:len(m)-1])
			continue
		}
		if strings.HasPrefix(m, "except(") && strings.HasSuffix(m, ")") {
			// everything may change except the listed variables
			tmp := newWS()
			sub := *ct
			sub.Modifies = splitTopLevel(m[7 : len(m)-1])
			fc.modifiesToWS(&sub, tmp)
			ws.All = true
			if ws.Except == nil {
				ws.Except = map[string]bool{}
			}
			for k := range tmp.Names {
				ws.Except[k] = true
			}
			continue
		}
		if fresh {
			tmp := newWS()
			sub := *ct
			sub.Modifies = []string{m}
			fc.modifiesToWS(&sub, tmp)
			for k := range tmp.Names {
				if !ws.Names[k] {
					ws.Fresh[k] = true
				}
				ws.add(k)
			}
			continue
		}
		switch {
		case m == "all" || m == "*":
			ws.All = true
		case strings.HasPrefix(m, "map["):
			// contents of maps of this Go type
			ty := fc.lookupTypeNameIn(m, ct.PkgPath)
			mt, ok := ty.(*types.Map)
			if ty == nil || !ok {
				fc.fail("modifies: unknown map type %s", m)
			}
			d, v, l := fc.mapVars(mt)
			ws.add(d)
			ws.add(v)
			ws.add(l)
		case strings.Contains(m, "."):
			// Type.field
			li := strings.LastIndex(m, ".")
			parts := []string{m[:li], m[li+1:]}
			ty := fc.lookupTypeNameIn(parts[0], ct.PkgPath)
			if ty == nil {
				fc.fail("modifies: unknown type %s in contract of %s", parts[0], ct.Name)
			}
			si := fc.eng.U.StructOf(ty)
			if si == nil {
				fc.fail("modifies: %s is not a struct", parts[0])
			}
			found := false
			for i, f := range si.Fields {
				if f.Name == parts[1] || parts[1] == "*" {
					ws.add(fc.heapFieldVar(si, i))
					found = true
				}
			}
			if !found {
				fc.fail("modifies: no field %s in %s", parts[1], parts[0])
			}
		case strings.HasPrefix(m, "mem:"):
			ty := fc.lookupTypeNameIn(m[4:], ct.PkgPath)
			if ty == nil {
				fc.fail("modifies: unknown type %s", m[4:])
			}
			ws.add(fc.memVar(ty))
		case strings.HasPrefix(m, "ghost:"):
			ws.add(fc.libStateVar(m[6:]))
		default:
			ws.add(m)
		}
	}
}

// prescan registers the heap variables the function touches and computes the
// volatile set (memory written by goroutines it spawns).
func (fc *FnCtx) prescan() {
	vol := newWS()
	any := false
	for _, b := range fc.fn.Blocks {
		for _, in := range b.Instrs {
			ws := newWS()
			fc.instrWrites(in, ws, true)
			if g, ok := in.(*ssa.Go); ok {
				if fc.syncedGo(g) > 0 {
					continue // treated as a call at the matching select (sync clause)
				}
				any = true
				vol.union(fc.callWrites(g))
			}
			if a, ok := in.(*ssa.Alloc); ok && a.Comment != "" {
				fc.localAllocs[a.Comment] = append(fc.localAllocs[a.Comment], a)
			}
		}
	}
	if any {
		// only heap-like names matter
		fc.volatileSet = vol
		// volatile applies to code that may run after a go statement
		fc.afterGo = map[*ssa.BasicBlock]bool{}
		var visit func(b *ssa.BasicBlock)
		visit = func(b *ssa.BasicBlock) {
			if fc.afterGo[b] {
				return
			}
			fc.afterGo[b] = true
			for _, s := range b.Succs {
				visit(s)
			}
		}
		for _, b := range fc.fn.Blocks {
			for _, in := range b.Instrs {
				if g, ok := in.(*ssa.Go); ok && fc.syncedGo(g) == 0 {
					for _, s := range b.Succs {
						visit(s)
					}
				}
			}
		}
	}
}

// syncedGo: if the go statement is named by a "sync go#k at select#j" clause,
// returns j (the select at which its effects are applied), else 0.
func (fc *FnCtx) syncedGo(g *ssa.Go) int {
	if fc.contract == nil || len(fc.contract.SyncGo) == 0 {
		return 0
	}
	var gos []*ssa.Go
	for _, b := range fc.fn.Blocks {
		for _, in := range b.Instrs {
			if x, ok := in.(*ssa.Go); ok {
				gos = append(gos, x)
			}
		}
	}
	sort.Slice(gos, func(i, j int) bool { return gos[i].Pos() < gos[j].Pos() })
	for i, x := range gos {
		if x == g {
			for _, p := range fc.contract.SyncGo {
				if p[0] == i+1 {
					return p[1]
				}
			}
		}
	}
	return 0
}
