package main

// SSA (naive form) -> passive guarded commands, with loops cut at their
// headers by invariants.

import (
	"fmt"
	"os"
	"runtime/debug"
	"go/ast"
	"go/constant"
	"go/token"
	"go/types"
	"sort"
	"strings"

	"golang.org/x/tools/go/ssa"
)

func (e *Engine) NewFnCtx(fn *ssa.Function, c *FuncContract) *FnCtx {
	fc := &FnCtx{eng: e, fn: fn, contract: c,
		svSort: map[string]Sort{}, svHeap: map[string]bool{}, nextInc: map[string]int{}, declared: map[string]bool{},
		vals: map[ssa.Value]Val{}, pbOf: map[*ssa.BasicBlock]*PBlock{}, pend: map[*ssa.BasicBlock][]*pendingEdge{},
		loops: map[*ssa.BasicBlock]*LoopInfo{}, counters: map[string]int{}, callOrd: map[string]int{},
		assumptions: map[string]bool{}, ghostTypes: map[string]types.Type{}, mapEnums: map[*ssa.Range]*mapEnum{},
		safety: map[string]bool{}, localAllocs: map[string][]*ssa.Alloc{}, closureOf: map[string]*ssa.MakeClosure{},
		callOrdOf: map[ssa.CallInstruction]map[string]int{}}
	fc.name = shortName(fn)
	fc.qname = qualifiedName(fn)
	top := fn
	for top.Parent() != nil {
		top = top.Parent()
	}
	if top.Pkg != nil {
		fc.tpkg = top.Pkg.Pkg
	}
	// default safety classes
	for _, k := range []string{"bounds", "div", "nopanic", "makeslice"} {
		fc.safety[k] = true
	}
	if c != nil {
		if c.Safety["none"] {
			fc.safety = map[string]bool{}
		}
		for k := range c.Safety {
			if strings.HasPrefix(k, "-") {
				delete(fc.safety, k[1:])
			} else if k != "none" {
				fc.safety[k] = true
			}
		}
		fc.arith = c.Flags["arith"]
	}
	return fc
}

func (fc *FnCtx) havocHeap() {
	if os.Getenv("GOVC_DEBUG") != "" {
		fmt.Fprintf(os.Stderr, "DEBUG havocHeap in %s block %s\n", fc.name, fc.cur.Name)
		debug.PrintStack()
	}
	fc.stateVar("alloc", SInt, false)
	old := fc.lookup("alloc")
	fc.havocAllHeap()
	n := fc.havoc("alloc")
	fc.assume(T(SBool, "(>= %s %s)", n.S, old.S))
}

// ------------------------------------------------------------------ loop info

func (fc *FnCtx) findLoops() error {
	fn := fc.fn
	// back edges: succ dominates pred
	for _, b := range fn.Blocks {
		for _, s := range b.Succs {
			if s.Dominates(b) {
				li := fc.loops[s]
				if li == nil {
					li = &LoopInfo{Header: s, Blocks: map[*ssa.BasicBlock]bool{s: true}}
					fc.loops[s] = li
				}
				li.BackPreds = append(li.BackPreds, b)
				// natural loop
				stack := []*ssa.BasicBlock{b}
				for len(stack) > 0 {
					x := stack[len(stack)-1]
					stack = stack[:len(stack)-1]
					if li.Blocks[x] {
						continue
					}
					li.Blocks[x] = true
					stack = append(stack, x.Preds...)
				}
			}
		}
	}
	for _, li := range fc.loops {
		for b := range li.Blocks {
			for _, in := range b.Instrs {
				if p := in.Pos(); p.IsValid() && (li.MinPos == 0 || p < li.MinPos) {
					li.MinPos = p
				}
			}
		}
		fc.loopList = append(fc.loopList, li)
	}
	sort.Slice(fc.loopList, func(i, j int) bool {
		a, b := fc.loopList[i], fc.loopList[j]
		if a.MinPos != b.MinPos {
			return a.MinPos < b.MinPos
		}
		if len(a.Blocks) != len(b.Blocks) {
			return len(a.Blocks) > len(b.Blocks)
		}
		return a.Header.Index < b.Header.Index
	})
	stmts := loopStmts(fc.fn.Syntax())
	for i, li := range fc.loopList {
		li.Ord = i + 1
		if len(stmts) == len(fc.loopList) {
			li.StmtPos, li.StmtEnd = stmts[i].Pos(), stmts[i].End()
		}
		if fc.contract != nil {
			li.Spec = fc.contract.Loops[li.Ord]
		}
		// detect range loops
		for _, in := range li.Header.Instrs {
			if phi, ok := in.(*ssa.Phi); ok && phi.Comment == "rangeindex" {
				li.rangeIdx = phi
			}
			if ld, ok := in.(*ssa.UnOp); ok && ld.Op == token.MUL {
				if a, ok := ld.X.(*ssa.Alloc); ok && a.Comment == "rangeindex" {
					li.rangeCell = a
				}
			}
			if nx, ok := in.(*ssa.Next); ok {
				li.rangeNext = nx
				if r, ok := nx.Iter.(*ssa.Range); ok {
					li.rangeInstr = r
				}
			}
		}
		if li.rangeIdx != nil || li.rangeCell != nil {
			// pattern: t2 = phi + 1; t3 = t2 < tlen
			for _, in := range li.Header.Instrs {
				if bo, ok := in.(*ssa.BinOp); ok && bo.Op == token.LSS {
					li.rangeLen = bo.Y
				}
			}
		}
	}
	if len(stmts) != len(fc.loopList) {
		// loops with constant-false conditions or labelled gotos; contracts that
		// name loop ordinals would be unreliable.
		if fc.contract != nil && len(fc.contract.Loops) > 0 {
			return fmt.Errorf("%s: %d loops in SSA but %d loop statements in source", fc.name, len(fc.loopList), len(stmts))
		}
	}
	return nil
}

// ---------------------------------------------------------------- main driver

func (fc *FnCtx) topoOrder() []*ssa.BasicBlock {
	fn := fc.fn
	indeg := map[*ssa.BasicBlock]int{}
	reach := map[*ssa.BasicBlock]bool{}
	var dfs func(b *ssa.BasicBlock)
	dfs = func(b *ssa.BasicBlock) {
		if reach[b] {
			return
		}
		reach[b] = true
		for _, s := range b.Succs {
			dfs(s)
		}
	}
	dfs(fn.Blocks[0])
	isBack := func(p, s *ssa.BasicBlock) bool { return s.Dominates(p) }
	for _, b := range fn.Blocks {
		if !reach[b] {
			continue
		}
		for _, s := range b.Succs {
			if !isBack(b, s) {
				indeg[s]++
			}
		}
	}
	var order []*ssa.BasicBlock
	var ready []*ssa.BasicBlock
	ready = append(ready, fn.Blocks[0])
	for len(ready) > 0 {
		// pick the lowest index for determinism
		sort.Slice(ready, func(i, j int) bool { return ready[i].Index < ready[j].Index })
		b := ready[0]
		ready = ready[1:]
		order = append(order, b)
		for _, s := range b.Succs {
			if isBack(b, s) {
				continue
			}
			indeg[s]--
			if indeg[s] == 0 {
				ready = append(ready, s)
			}
		}
	}
	return order
}

// Translate builds the passive program and all obligations of the function.
func (fc *FnCtx) Translate() (err error) {
	defer func() {
		if r := recover(); r != nil {
			if te, ok := r.(transErr); ok {
				err = fmt.Errorf("%s: %s", fc.name, string(te))
				return
			}
			panic(r)
		}
	}()
	fn := fc.fn
	if len(fn.Blocks) == 0 {
		return fmt.Errorf("%s: no body", fc.name)
	}
	if err := fc.findLoops(); err != nil {
		return err
	}
	fc.prescan()
	fc.stateVar("alloc", SInt, false)

	entry := fc.newBlock("entry")
	fc.cur = entry
	fc.env = &Env{inc: map[string]string{}, places: map[string]*Place{}}
	fc.setupEntry()
	fc.entryEnv = fc.env.clone()
	fc.pend[fn.Blocks[0]] = []*pendingEdge{{from: entry, cond: TrueT, env: fc.env}}

	for _, b := range fc.topoOrder() {
		fc.doBlock(b)
	}
	fc.checkUnmatched()
	fc.checkChanInvs()
	fc.checkFrame()
	return nil
}

// checkFrame: the frame condition is checked semantically at every return
// (see doReturn); nothing to do statically.
func (fc *FnCtx) checkFrame() {}

// insideLoopSyntax: the block belongs to the source text of the loop
// statement (e.g. an error return inside the body) although it is not part
// of the natural loop.
func (fc *FnCtx) insideLoopSyntax(li *LoopInfo, b *ssa.BasicBlock) bool {
	if !li.StmtPos.IsValid() {
		return false
	}
	for _, in := range b.Instrs {
		if p := in.Pos(); p.IsValid() {
			return li.StmtPos <= p && p < li.StmtEnd
		}
	}
	return false
}

func (fc *FnCtx) nextCount(k string) int {
	fc.counters[k]++
	return fc.counters[k]
}

type transErr string

func (fc *FnCtx) fail(format string, args ...interface{}) {
	panic(transErr(fmt.Sprintf(format, args...)))
}

func (fc *FnCtx) setupEntry() {
	fn := fc.fn
	u := fc.eng.U
	alloc0 := fc.lookup("alloc")
	fc.assume(T(SBool, "(>= %s 0)", alloc0.S))
	for _, p := range fn.Params {
		c := "p_" + mangle(p.Name())
		sort := u.SortOf(p.Type())
		fc.declare(c, sort)
		t := Term{c, sort}
		fc.vals[p] = TV(t)
		fc.assume(fc.typeFacts(p.Type(), t, 1))
	}
	for _, fv := range fn.FreeVars {
		if name, ok := fc.eng.sharedCell(fv); ok {
			et := fv.Type().Underlying().(*types.Pointer).Elem()
			fc.stateVar(name, u.SortOf(et), false)
			fc.vals[fv] = Val{P: &Place{Kind: PCell, Var: name, Type: et}}
			fc.assume(fc.typeFacts(et, fc.lookup(name), 1))
			continue
		}
		c := "fv_" + mangle(fv.Name())
		fc.declare(c, SInt)
		t := Term{c, SInt}
		fc.vals[fv] = TV(t)
		fc.assume(T(SBool, "(and (> %s 0) (<= %s %s))", c, c, alloc0.S))
	}
	if fc.contract != nil {
		// ghost variables
		for _, g := range fc.contract.Ghosts {
			ty := fc.lookupTypeName(g.Type)
			if ty == nil {
				fc.fail("unknown ghost type %s", g.Type)
			}
			fc.ghostTypes[g.Name] = ty
			fc.stateVar("g_"+g.Name, u.SortOf(ty), false)
		}
		sc := fc.funcScope(fc.env, fc.env, nil)
		for _, g := range fc.contract.Ghosts {
			t, _ := sc.tr(g.Init)
			if want := u.SortOf(fc.ghostTypes[g.Name]); t.Sort != want {
				// "= nil" for a slice-typed ghost and the like: the zero value
				if _, ok := g.Init.(*ENil); ok {
					t = u.Zero(fc.ghostTypes[g.Name])
				}
			}
			fc.assign("g_"+g.Name, t)
		}
		for _, r := range fc.contract.Requires {
			t := sc.trBool(r.E)
			fc.assume(t)
			if fc.fn.Parent() != nil {
				// a function literal is mostly called through a function value:
				// its precondition is then not an obligation of any call site
				fc.assumeNote("precondition of function literal " + fc.contract.Name + " is assumed where it is called through a function value (checked only at direct calls from functions under contract): " + r.Src)
			}
		}
	}
}

// typeFacts returns range/shape facts for a value of the given type.
func (fc *FnCtx) typeFacts(t types.Type, v Term, depth int) Term {
	u := fc.eng.U
	switch tt := t.Underlying().(type) {
	case *types.Basic:
		if tt.Info()&types.IsInteger != 0 {
			return rangeFact(t, v)
		}
		return TrueT
	case *types.Slice:
		al := fc.lookup("alloc")
		return And(T(SBool, "(<= (s_arr %s) %s)", v.S, al.S), T(SBool, "(and (<= 0 (s_off %[1]s)) (<= 0 (s_len %[1]s)) (<= (s_len %[1]s) (s_cap %[1]s)) (>= (s_arr %[1]s) 0) (=> (= (s_arr %[1]s) 0) (= (s_cap %[1]s) 0)) (<= (+ (s_off %[1]s) (s_cap %[1]s)) 281474976710656))", v.S))
	case *types.Pointer, *types.Map, *types.Chan:
		al := fc.lookup("alloc")
		return T(SBool, "(and (>= %s 0) (<= %s %s))", v.S, v.S, al.S)
	case *types.Struct:
		if opaqueNamed(t) || depth > 2 {
			return TrueT
		}
		si := u.StructOf(t)
		var fs []Term
		for _, f := range si.Fields {
			fs = append(fs, fc.typeFacts(f.Type, App(f.Sort, f.Sel, v), depth+1))
		}
		return And(fs...)
	}
	return TrueT
}

func (fc *FnCtx) doBlock(b *ssa.BasicBlock) {
	pb := fc.newBlock(fmt.Sprintf("b%d", b.Index))
	pb.ssaB = b
	fc.pbOf[b] = pb
	fc.cur = pb
	var phis []*ssa.Phi
	for _, in := range b.Instrs {
		if phi, ok := in.(*ssa.Phi); ok {
			phis = append(phis, phi)
		}
	}
	fc.env = fc.mergeEdges(pb, fc.pend[b], phis)
	fc.volatile = nil
	if fc.volatileSet != nil && fc.afterGo[b] {
		fc.volatile = fc.volatileSet
	}
	if li := fc.loops[b]; li != nil {
		fc.loopHeader(li)
	}
	for _, in := range b.Instrs {
		fc.doInstr(in)
	}
}

// edge registers a control transfer from the current block.
func (fc *FnCtx) edge(to *ssa.BasicBlock, cond Term) {
	from := fc.cur.ssaB
	// phi values for the target
	phis := map[*ssa.Phi]Term{}
	for _, in := range to.Instrs {
		phi, ok := in.(*ssa.Phi)
		if !ok {
			break
		}
		for i, p := range to.Preds {
			if p == from {
				phis[phi] = fc.term(phi.Edges[i])
				break
			}
		}
	}
	if from != nil && to.Dominates(from) {
		if li := fc.loops[to]; li != nil {
			fc.backEdge(li, cond, phis)
			return
		}
	}
	if from != nil && fc.contract != nil {
		for _, li := range fc.loopList {
			if !li.Blocks[from] || li.Blocks[to] || fc.insideLoopSyntax(li, to) {
				continue
			}
			for _, aa := range fc.contract.Asserts {
				if aa.Anchor == "loopexit" && aa.Ord == li.Ord && aa.Cl != nil {
					aa.Matched++
					sc := fc.loopScope(li, fc.env)
					sc.pos = 0
					name := fmt.Sprintf("%s:loop%d.exit.assert#%d.%d", fc.name, li.Ord, aa.Cl.N, fc.nextCount(fmt.Sprintf("lx%d_%d", li.Ord, aa.Cl.N)))
					fc.assert("assert", name, Implies(cond, sc.trBool(aa.Cl.E)), aa.Cl.Src, li.MinPos, false)
				}
			}
		}
	}
	exitEnv := fc.env
	if from != nil && fc.contract != nil {
		// ghost updates on loop-exit edges apply to this edge only
		for _, li := range fc.loopList {
			if !li.Blocks[from] || li.Blocks[to] || fc.insideLoopSyntax(li, to) {
				continue
			}
			for _, aa := range fc.contract.Asserts {
				if aa.Anchor == "loopexit" && aa.Ord == li.Ord && aa.Set != nil {
					aa.Matched++
					if exitEnv == fc.env {
						exitEnv = fc.env.clone()
					}
					if _, ok := fc.ghostTypes[aa.Set.Name]; !ok {
						fc.fail("set of undeclared ghost %s", aa.Set.Name)
					}
					saved := fc.env
					fc.env = exitEnv
					sc := fc.loopScope(li, fc.env)
					sc.pos = 0
					t, _ := sc.tr(aa.Set.E)
					fc.assign("g_"+aa.Set.Name, t)
					fc.env = saved
				}
			}
		}
	}
	if from != nil {
		for _, li := range fc.loopList {
			if li.Spec != nil && li.Spec.Exhaustive && (li.Blocks[from] || fc.insideLoopSyntax(li, from)) && !li.Blocks[to] && from != li.Header && !fc.insideLoopSyntax(li, to) {
				fc.assert("exhaustive", fmt.Sprintf("%s:loop%d.noearlyexit#%d", fc.name, li.Ord, fc.nextCount(fmt.Sprintf("ex%d", li.Ord))), Not(cond), "the loop is left only when its condition fails (no break/goto out of it)", li.MinPos, false)
			}
		}
	}
	fc.pend[to] = append(fc.pend[to], &pendingEdge{from: fc.cur, cond: cond, env: exitEnv.clone(), phis: phis})
}

// ------------------------------------------------------------------- loop cut

func (fc *FnCtx) loopScope(li *LoopInfo, env *Env) *Scope {
	pos := li.MinPos
	// resolve names as visible inside the loop body: use a position inside the loop
	sc := fc.funcScope(env, fc.entryEnv, nil)
	sc.pos = pos
	sc.loop = li
	sc.mode = "inv"
	return sc
}

func (fc *FnCtx) autoInvariants(li *LoopInfo, env *Env) []Term {
	var out []Term
	if li.rangeIdx != nil && li.rangeLen != nil {
		phi := fc.lookupIn(env, fc.phiVar(li.rangeIdx))
		ln := fc.term(li.rangeLen)
		out = append(out, T(SBool, "(and (<= (- 1) %s) (or (< %s %s) (= %s (- 1))))", phi.S, phi.S, ln.S, phi.S))
	}
	if li.rangeCell != nil && li.rangeLen != nil {
		if v, ok := fc.vals[li.rangeCell]; ok && v.P != nil {
			c := fc.lookupIn(env, v.P.Var)
			ln := fc.term(li.rangeLen)
			out = append(out, T(SBool, "(and (<= (- 1) %s) (or (< %s %s) (= %s (- 1))))", c.S, c.S, ln.S, c.S))
		}
	}
	if li.rangeNext != nil && li.rangeInstr != nil {
		if me := fc.mapEnums[li.rangeInstr]; me != nil {
			it := fc.lookupIn(env, me.iter)
			out = append(out, T(SBool, "(and (<= 0 %s) (<= %s %s))", it.S, it.S, me.n.S))
		}
	}
	return out
}

func (fc *FnCtx) loopHeader(li *LoopInfo) {
	lname := fmt.Sprintf("loop%d", li.Ord)
	if fc.bounded > 0 {
		return
	}
	// 1. invariants hold on entry
	for k, t := range fc.autoInvariants(li, fc.env) {
		fc.assert("inv", fmt.Sprintf("%s:%s.auto#%d.established", fc.name, lname, k+1), t, "automatic range-loop invariant", li.MinPos, true)
	}
	if li.Spec != nil {
		sc := fc.loopScope(li, fc.env)
		for _, inv := range li.Spec.Invariants {
			t := sc.trBool(inv.E)
			fc.assert("inv", fmt.Sprintf("%s:%s.inv#%d.established", fc.name, lname, inv.N), t, inv.Src, li.MinPos, false)
		}
	}
	// 2. havoc everything the loop may write
	ws := fc.loopWriteSet(li)
	if ws.All {
		keep := map[string]Term{}
		for k := range ws.Except {
			if _, ok := fc.svSort[k]; ok && !ws.Names[k] {
				keep[k] = fc.lookup(k)
			}
		}
		fc.havocHeap()
		for _, k := range sortedKeys(keep) {
			fc.env.inc[k] = keep[k].S
		}
	}
	for _, name := range ws.sorted() {
		if _, ok := fc.svSort[name]; !ok {
			if s, ok := ws.Sorts[name]; ok {
				fc.stateVar(name, s, true)
			} else {
				continue
			}
		}
		fc.havoc(name)
	}
	for name := range fc.env.places {
		if ws.Names[name] {
			delete(fc.env.places, name)
		}
	}
	// type facts for havocked cells
	for _, name := range ws.sorted() {
		if t, ok := ws.Types[name]; ok {
			if _, ok := fc.svSort[name]; ok {
				fc.assume(fc.typeFacts(t, fc.lookup(name), 1))
			}
		}
	}
	// 3. assume invariants
	for _, t := range fc.autoInvariants(li, fc.env) {
		fc.assume(t)
	}
	li.headerEnv = fc.env.clone()
	if li.Spec != nil {
		sc := fc.loopScope(li, fc.env)
		for _, inv := range li.Spec.Invariants {
			fc.assume(sc.trBool(inv.E))
		}
		if li.Spec.Decreases != nil {
			v, _ := sc.tr(li.Spec.Decreases.E)
			li.variant = v
			li.hasVar = true
		}
	}
}

func (fc *FnCtx) backEdge(li *LoopInfo, cond Term, phis map[*ssa.Phi]Term) {
	if fc.bounded > 0 {
		return
	}
	lname := fmt.Sprintf("loop%d", li.Ord)
	save, saveEnv := fc.cur, fc.env
	nb := fc.newBlock(fmt.Sprintf("back_%s_from_%s", lname, save.Name))
	nb.Preds = []*PEdge{{From: save, Cond: cond}}
	fc.cur = nb
	fc.env = saveEnv.clone()
	for phi, v := range phis {
		fc.assign(fc.phiVar(phi), v)
	}
	for k, t := range fc.autoInvariants(li, fc.env) {
		name := fmt.Sprintf("%s:%s.auto#%d.preserved", fc.name, lname, k+1)
		if len(li.BackPreds) > 1 {
			name += fmt.Sprintf("@%s", save.Name)
		}
		fc.assert("inv", name, t, "automatic range-loop invariant", li.MinPos, true)
	}
	if li.Spec != nil {
		sc := fc.loopScope(li, fc.env)
		for _, inv := range li.Spec.Invariants {
			t := sc.trBool(inv.E)
			name := fmt.Sprintf("%s:%s.inv#%d.preserved", fc.name, lname, inv.N)
			if len(li.BackPreds) > 1 {
				name += fmt.Sprintf("@%s", save.Name)
			}
			fc.assert("inv", name, t, inv.Src, li.MinPos, false)
		}
		if li.hasVar && false {
		}
	}
	if fc.contract != nil {
		for _, aa := range fc.contract.Asserts {
			if aa.Anchor == "loopback" && aa.Ord == li.Ord && aa.Cl != nil {
				aa.Matched++
				sc := fc.loopScope(li, fc.env)
				sc.preferLate = true
				name := fmt.Sprintf("%s:%s.back.assert#%d", fc.name, lname, aa.Cl.N)
				if len(li.BackPreds) > 1 {
					name += fmt.Sprintf("@%s", save.Name)
				}
				fc.assert("assert", name, sc.trBool(aa.Cl.E), aa.Cl.Src, li.MinPos, false)
			}
		}
	}
	if li.Spec != nil {
		sc := fc.loopScope(li, fc.env)
		if li.hasVar {
			v, _ := sc.tr(li.Spec.Decreases.E)
			name := fmt.Sprintf("%s:%s.decreases", fc.name, lname)
			if len(li.BackPreds) > 1 {
				name += fmt.Sprintf("@%s", save.Name)
			}
			fc.assert("decreases", name, T(SBool, "(and (<= 0 %s) (< %s %s))", v.S, v.S, li.variant.S), li.Spec.Decreases.Src, li.MinPos, false)
		}
	}
	fc.cur, fc.env = save, saveEnv
}

// checkUnmatched reports contract clauses that no longer correspond to code.
func (fc *FnCtx) checkUnmatched() {
	if fc.contract == nil {
		return
	}
	c := fc.contract
	save := fc.cur
	fc.cur = fc.blocks[0]
	for n, ls := range c.Loops {
		found := false
		for _, li := range fc.loopList {
			if li.Ord == n {
				found = true
			}
		}
		if !found {
			fc.assertUnmatched(fmt.Sprintf("%s:loop%d.unmatched", fc.name, n), fmt.Sprintf("contract names loop %d but the function has %d loops", n, len(fc.loopList)))
		}
		_ = ls
	}
	for _, cs := range c.Calls {
		if cs.Matched == 0 {
			if cs.Ord == 0 && len(cs.Requires) == 0 && len(cs.Ensures) == 0 && !cs.Pure {
				// "#*" with ghost updates only (a counter over all such calls):
				// no such call is a legitimate count of zero
				continue
			}
			fc.assertUnmatched(fmt.Sprintf("%s:call(%s)#%d.unmatched", fc.name, cs.Callee, cs.Ord), "call-site clause matches no call in the function")
		}
	}
	for _, aa := range c.Asserts {
		if aa.Matched == 0 {
			fc.assertUnmatched(fmt.Sprintf("%s:at(%s %s#%d).unmatched", fc.name, aa.Anchor, aa.Var, aa.Ord), "anchored clause matches no program point")
		}
	}
	if len(c.Ensures) > 0 && fc.counters["return"] == 0 {
		fc.assertUnmatched(fmt.Sprintf("%s:ensures.unmatched", fc.name), "function has no return")
	}
	fc.cur = save
}

func (fc *FnCtx) assertUnmatched(name, desc string) {
	ob := &Obligation{Name: name, Kind: "unmatched", Func: fc.name, Desc: desc, Block: fc.blocks[0], Index: 0, Cond: FalseT, fc: fc}
	if fc.contract != nil {
		ob.Props = fc.contract.Props
	}
	ob.Status = "failed"
	ob.Solver = "structural"
	fc.obligations = append(fc.obligations, ob)
}

// ------------------------------------------------------------------ constants

func (fc *FnCtx) constTerm(c *ssa.Const) Term {
	u := fc.eng.U
	t := c.Type()
	sort := u.SortOf(t)
	if c.Value == nil {
		return u.Zero(t)
	}
	switch c.Value.Kind() {
	case constant.Bool:
		return BoolLit(constant.BoolVal(c.Value))
	case constant.String:
		return StrLit(constant.StringVal(c.Value))
	case constant.Int:
		if sort == SReal {
			return Term{"(to_real " + BigLit(c.Value.ExactString()).S + ")", SReal}
		}
		return BigLit(c.Value.ExactString())
	case constant.Float:
		return realLit(c.Value)
	}
	return u.Zero(t)
}

func realLit(v constant.Value) Term {
	num := constant.Num(v)
	den := constant.Denom(v)
	if num.Kind() == constant.Int && den.Kind() == constant.Int {
		n := num.ExactString()
		d := den.ExactString()
		neg := strings.HasPrefix(n, "-")
		if neg {
			n = n[1:]
		}
		s := fmt.Sprintf("(/ %s.0 %s.0)", n, d)
		if neg {
			s = "(- " + s + ")"
		}
		return Term{s, SReal}
	}
	f, _ := constant.Float64Val(v)
	return Term{fmt.Sprintf("%f", f), SReal}
}

// value returns the translation of an SSA value.
func (fc *FnCtx) value(v ssa.Value) Val {
	if x, ok := fc.vals[v]; ok {
		return x
	}
	switch vv := v.(type) {
	case *ssa.Const:
		return TV(fc.constTerm(vv))
	case *ssa.Global:
		return Val{P: fc.globalPlace(vv)}
	case *ssa.Function:
		name := "fn_" + mangle(qualifiedName(vv))
		fc.eng.GDecl(name, fmt.Sprintf("(declare-const %s Int)", name))
		return TV(Term{name, SInt})
	case *ssa.Builtin:
		return TV(IntLit(0))
	}
	fc.fail("value of %T %s not available (use before def?)", v, v.Name())
	return Val{}
}

// term forces a value to an SMT term (pointers become opaque addresses).
func (fc *FnCtx) term(v ssa.Value) Term {
	x := fc.value(v)
	if x.P != nil {
		return fc.addrTerm(x.P)
	}
	if x.Tuple != nil {
		fc.fail("tuple used as a term: %s", v.Name())
	}
	return x.T
}

// addrTerm gives an integer denoting the address of a place; only object
// references (struct roots) are meaningful addresses for later dereference.
func (fc *FnCtx) addrTerm(p *Place) Term {
	switch p.Kind {
	case PHeapStruct:
		if len(p.Path) == 0 {
			return p.Ref
		}
	case PStar:
		if len(p.Path) == 0 {
			return p.Ref
		}
	}
	// interior pointer: opaque, injective in its components as far as the
	// engine is concerned (no dereference through it is modelled)
	name := "addr_" + mangle(p.Key())
	if len(name) > 60 {
		fc.fresh++
		name = fmt.Sprintf("addr!%d", fc.fresh)
	}
	fc.declare(name, SInt)
	fc.assume(T(SBool, "(> %s 0)", name))
	return Term{name, SInt}
}

func (fc *FnCtx) globalPlace(g *ssa.Global) *Place {
	u := fc.eng.U
	t := g.Type().(*types.Pointer).Elem()
	name := "G_" + mangle(g.Pkg.Pkg.Name()+"_"+g.Name())
	sort := u.SortOf(t)
	fc.eng.GDecl(name, fmt.Sprintf("(declare-const %s %s)", name, sort))
	fc.eng.globalFacts(g, name, sort)
	return &Place{Kind: PGlobal, Var: name, Type: t}
}

// globalFacts records what is known about a package-level variable: the value
// of a constant initialiser (if the variable is never assigned outside its
// declaration), and non-nil-ness/distinctness of sentinel errors.
func (e *Engine) globalFacts(g *ssa.Global, name string, sort Sort) {
	pkg := e.Pkgs[g.Pkg.Pkg.Path()]
	if pkg == nil {
		// a library variable: sentinel errors are non-nil
		if types.Identical(g.Type().(*types.Pointer).Elem(), types.Universe.Lookup("error").Type()) {
			e.GDecl("typeof", "(declare-fun typeof (Int) Int)")
			e.GAxiom("nonnil_"+name, fmt.Sprintf("(assert (and (> %s 0) (= (typeof %s) (- 1))))", name, name), name)
			e.sentinel(name)
		}
		return
	}
	obj, _ := g.Object().(*types.Var)
	if obj == nil {
		return
	}
	if e.assignedOutsideInit(g) {
		return
	}
	// find initialiser
	for _, f := range pkg.Syntax {
		for _, d := range f.Decls {
			gd, ok := d.(*ast.GenDecl)
			if !ok || gd.Tok != token.VAR {
				continue
			}
			for _, sp := range gd.Specs {
				vs := sp.(*ast.ValueSpec)
				for i, id := range vs.Names {
					if pkg.TypesInfo.Defs[id] != obj || i >= len(vs.Values) || len(vs.Values) != len(vs.Names) {
						continue
					}
					tv := pkg.TypesInfo.Types[vs.Values[i]]
					if tv.Value != nil {
						var lit Term
						switch tv.Value.Kind() {
						case constant.Int:
							lit = BigLit(tv.Value.ExactString())
							if sort == SReal {
								lit = Term{"(to_real " + lit.S + ")", SReal}
							}
						case constant.Bool:
							lit = BoolLit(constant.BoolVal(tv.Value))
						case constant.String:
							lit = StrLit(constant.StringVal(tv.Value))
						case constant.Float:
							lit = realLit(tv.Value)
						default:
							continue
						}
						e.GAxiom("init_"+name, fmt.Sprintf("(assert (= %s %s))", name, lit.S), name)
						continue
					}
					// alias of another package-level variable: same value
					var ref *ast.Ident
					switch r := vs.Values[i].(type) {
					case *ast.Ident:
						ref = r
					case *ast.SelectorExpr:
						ref = r.Sel
					}
					if ref != nil {
						if ov, ok := pkg.TypesInfo.Uses[ref].(*types.Var); ok && ov.Pkg() != nil && ov.Parent() == ov.Pkg().Scope() {
							if sp := e.Prog.Package(ov.Pkg()); sp != nil {
								if og, ok := sp.Members[ov.Name()].(*ssa.Global); ok && !e.assignedOutsideInit(og) {
									oname := "G_" + mangle(og.Pkg.Pkg.Name()+"_"+og.Name())
									osort := e.U.SortOf(og.Type().(*types.Pointer).Elem())
									e.GDecl(oname, fmt.Sprintf("(declare-const %s %s)", oname, osort))
									e.globalFacts(og, oname, osort)
									e.GAxiom("alias_"+name, fmt.Sprintf("(assert (= %s %s))", name, oname), name)
								}
							}
						}
					}
					// error variable initialised with a composite value: non-nil sentinel
					if _, ok := vs.Values[i].(*ast.CompositeLit); ok && (types.Identical(obj.Type(), types.Universe.Lookup("error").Type()) || isErrorish(obj.Type())) {
						e.GDecl("typeof", "(declare-fun typeof (Int) Int)")
						e.GAxiom("nonnil_"+name, fmt.Sprintf("(assert (and (> %s 0) (= (typeof %s) (- 1))))", name, name), name)
						e.sentinel(name)
					}
					// &T{...}: a distinct non-nil object
					if ue, ok := vs.Values[i].(*ast.UnaryExpr); ok && ue.Op == token.AND {
						if _, ok := ue.X.(*ast.CompositeLit); ok {
							e.GAxiom("nonnil_"+name, fmt.Sprintf("(assert (> %s 0))", name), name)
							e.sentinel(name)
						}
					}
					// errors.New / fmt.Errorf initialisers: non-nil sentinel
					if call, ok := vs.Values[i].(*ast.CallExpr); ok {
						if types.Identical(obj.Type(), types.Universe.Lookup("error").Type()) || isErrorish(obj.Type()) {
							_ = call
							e.GDecl("typeof", "(declare-fun typeof (Int) Int)")
							e.GAxiom("nonnil_"+name, fmt.Sprintf("(assert (and (> %s 0) (= (typeof %s) (- 1))))", name, name), name)
							e.sentinel(name)
						}
					}
				}
			}
		}
	}
}

func isErrorish(t types.Type) bool {
	it, ok := t.Underlying().(*types.Interface)
	if !ok {
		return false
	}
	for i := 0; i < it.NumMethods(); i++ {
		if it.Method(i).Name() == "Error" {
			return true
		}
	}
	return false
}

var sentinels []string

func (e *Engine) sentinel(name string) {
	for _, s := range sentinels {
		if s == name {
			return
		}
	}
	for _, s := range sentinels {
		a, b := s, name
		e.GAxiom("distinct_"+a+"_"+b, fmt.Sprintf("(assert (not (= %s %s)))", a, b), a+"\x00"+b)
	}
	sentinels = append(sentinels, name)
}

var assignedMemo = map[*ssa.Global]bool{}

func (e *Engine) assignedOutsideInit(g *ssa.Global) bool {
	if v, ok := assignedMemo[g]; ok {
		return v
	}
	res := false
	var visit func(fn *ssa.Function)
	visit = func(fn *ssa.Function) {
		if res {
			return
		}
		isInit := fn.Name() == "init" || strings.HasPrefix(fn.Name(), "init#")
		for _, b := range fn.Blocks {
			for _, in := range b.Instrs {
				if st, ok := in.(*ssa.Store); ok && !isInit {
					if rootGlobal(st.Addr) == g {
						res = true
						return
					}
				}
				// address passed to a call (e.g. flag.IntVar(&x)) counts as assigned
				if c, ok := in.(ssa.CallInstruction); ok && !isInit {
					for _, a := range c.Common().Args {
						if rootGlobal(a) == g {
							res = true
							return
						}
					}
				}
			}
		}
		for _, a := range fn.AnonFuncs {
			visit(a)
		}
	}
	for _, m := range g.Pkg.Members {
		switch mm := m.(type) {
		case *ssa.Function:
			visit(mm)
		case *ssa.Type:
			for _, t := range []types.Type{mm.Type(), types.NewPointer(mm.Type())} {
				ms := e.Prog.MethodSets.MethodSet(t)
				for i := 0; i < ms.Len(); i++ {
					if f := e.Prog.MethodValue(ms.At(i)); f != nil && f.Pkg == g.Pkg {
						visit(f)
					}
				}
			}
		}
	}
	assignedMemo[g] = res
	return res
}

func rootGlobal(v ssa.Value) *ssa.Global {
	for {
		switch x := v.(type) {
		case *ssa.Global:
			return x
		case *ssa.FieldAddr:
			v = x.X
		case *ssa.IndexAddr:
			v = x.X
		default:
			return nil
		}
	}
}
