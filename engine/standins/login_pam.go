// Stand-in for lib/controller/localdb/login_pam.go, used ONLY by the verifier's
// loader and by replay tests in this sandbox, where the cgo dependency
// github.com/msteinert/pam cannot be compiled (missing C header).  Same type,
// same methods; no function under contract is defined in or calls this file.

package localdb

import (
	"context"
	"errors"

	"git.arvados.org/arvados.git/sdk/go/arvados"
)

type pamLoginController struct {
	Cluster *arvados.Cluster
	Parent  *Conn
}

func (ctrl *pamLoginController) Logout(ctx context.Context, opts arvados.LogoutOptions) (arvados.LogoutResponse, error) {
	return noopLogout(ctrl.Cluster, opts)
}

func (ctrl *pamLoginController) Login(ctx context.Context, opts arvados.LoginOptions) (arvados.LoginResponse, error) {
	return arvados.LoginResponse{}, errors.New("interactive login is not available")
}

func (ctrl *pamLoginController) UserAuthenticate(ctx context.Context, opts arvados.UserAuthenticateOptions) (arvados.APIClientAuthorization, error) {
	return arvados.APIClientAuthorization{}, errors.New("PAM is not available in the verification sandbox")
}
