package main

import (
	"encoding/json"
	"flag"
	"fmt"
	"os"
	"path/filepath"
	"runtime"
	"sort"
	"strconv"
	"strings"
	"sync"
	"time"
)

func usage() {
	fmt.Fprintln(os.Stderr, `usage:
  govc check <property> <quick|thorough>     verify all contracts tagged with the property
  govc func <pkgdir> <name> [-dump]          verify one function (development)
  govc replay <replay.json>                  show / re-run a recorded failure`)
	os.Exit(2)
}

func main() {
	if len(os.Args) < 2 {
		usage()
	}
	switch os.Args[1] {
	case "check":
		if len(os.Args) < 4 {
			usage()
		}
		os.Exit(cmdCheck(os.Args[2], os.Args[3], os.Args[4:]))
	case "func":
		os.Exit(cmdFunc(os.Args[2:]))
	case "sweep":
		os.Exit(cmdSweep(os.Args[2:]))
	case "replay":
		if len(os.Args) < 3 {
			usage()
		}
		os.Exit(cmdReplay(os.Args[2]))
	default:
		usage()
	}
}

func envInt(name string, def int) int {
	if v := os.Getenv(name); v != "" {
		if n, err := strconv.Atoi(v); err == nil {
			return n
		}
	}
	return def
}

func newEngineFromEnv() *Engine {
	repo := os.Getenv("VERIF_REPO")
	if repo == "" {
		repo = "/repo"
	}
	verif := os.Getenv("VERIF_DIR")
	if verif == "" {
		verif = "/verif"
	}
	e := NewEngine(repo, verif)
	e.Seed = envInt("VERIF_SEED", 0)
	return e
}

func cmdFunc(args []string) int {
	fs := flag.NewFlagSet("func", flag.ExitOnError)
	dump := fs.Bool("dump", false, "keep SMT files of all obligations")
	timeout := fs.Int("t", 10, "timeout per query (s)")
	keep := fs.String("keep", "", "directory for SMT files")
	fs.Parse(args)
	if fs.NArg() < 2 {
		usage()
	}
	pkgdir, name := fs.Arg(0), fs.Arg(1)
	e := newEngineFromEnv()
	e.Timeout = *timeout
	if err := e.LoadContracts(); err != nil {
		fmt.Fprintln(os.Stderr, err)
		return 2
	}
	if err := e.LoadPackages([]string{pkgdir}); err != nil {
		fmt.Fprintln(os.Stderr, err)
		return 2
	}
	var scratch string
	if *keep != "" {
		scratch = *keep
		os.MkdirAll(scratch, 0755)
	} else {
		scratch, _ = os.MkdirTemp("", "govc")
		if !*dump {
			defer os.RemoveAll(scratch)
		}
	}
	e.ScratchDir = scratch
	var fcs []*FuncContract
	for _, cf := range e.Files {
		if cf.PkgDir != strings.TrimPrefix(pkgdir, "./") {
			continue
		}
		for _, c := range cf.Funcs {
			if c.Kind == "func" && !c.Flags["trusted"] && (c.Name == name || name == "all") {
				fcs = append(fcs, c)
			}
		}
	}
	if len(fcs) == 0 {
		fmt.Fprintf(os.Stderr, "no contract for %s in %s\n", name, pkgdir)
		return 2
	}
	var obs []*Obligation
	for _, c := range fcs {
		fn := e.FindFunction(c)
		if fn == nil {
			fmt.Fprintf(os.Stderr, "function %s not found\n", c.Name)
			return 2
		}
		fc := e.NewFnCtx(fn, c)
		if err := fc.Translate(); err != nil {
			fmt.Fprintln(os.Stderr, "translate:", err)
			return 2
		}
		for _, w := range fc.warnings {
			fmt.Println("warning:", w)
		}
		obs = append(obs, fc.obligations...)
	}
	start := time.Now()
	e.DischargeAll(obs, workers())
	bad := 0
	for _, ob := range obs {
		fmt.Printf("%-11s %-8s %5dms  %s   [%s] %s\n", ob.Status, ob.Solver, ob.Ms, ob.Name, ob.Pos, ob.Desc)
		if ob.Status != "discharged" {
			bad++
			fmt.Printf("    answers: %v  smt: %s\n", ob.Answers, ob.SMTPath)
		}
	}
	for k := range unknownCalls {
		fmt.Println("unknown call:", k)
	}
	for k := range uncontracted {
		fmt.Println("uncontracted call (write-set havoc):", k)
	}
	for _, w := range e.Warnings {
		fmt.Println("warning:", w)
	}
	fmt.Printf("%d obligations, %d not discharged, %.1fs; scratch %s\n", len(obs), bad, time.Since(start).Seconds(), scratch)
	if bad > 0 {
		return 1
	}
	return 0
}

// ------------------------------------------------------------------- evidence

type knownFinding struct {
	Property   string `json:"property"`
	Obligation string `json:"obligation"`
	What       string `json:"what"`
	Input      string `json:"input"`
	Status     string `json:"status"` // open | fixed
	Commit     string `json:"commit,omitempty"`
}

type knownFile struct {
	Findings []knownFinding `json:"findings"`
}

func loadKnown(verif string) []knownFinding {
	data, err := os.ReadFile(filepath.Join(verif, "known_findings.json"))
	if err != nil {
		return nil
	}
	var kf knownFile
	if err := json.Unmarshal(data, &kf); err != nil {
		fmt.Fprintln(os.Stderr, "known_findings.json:", err)
		return nil
	}
	return kf.Findings
}

type propMeta struct {
	NotDecided []string `json:"not_decided"`
	Assumed    []string `json:"assumed"`
}

func loadPropMeta(verif, prop string) propMeta {
	var all map[string]propMeta
	data, err := os.ReadFile(filepath.Join(verif, "props_meta.json"))
	if err != nil {
		return propMeta{}
	}
	json.Unmarshal(data, &all)
	return all[prop]
}

func cmdCheck(prop, tier string, rest []string) int {
	start := time.Now()
	if t := os.Getenv("VERIF_TIER"); t == "quick" || t == "thorough" {
		tier = t
	}
	e := newEngineFromEnv()
	e.Tier = tier
	e.Timeout = 25
	if tier == "thorough" {
		e.Timeout = 90
	}
	fail := func(err error) int {
		fmt.Fprintf(os.Stderr, "govc: %v\n", err)
		// machinery failure: not a property violation
		return 2
	}
	if err := e.LoadContracts(); err != nil {
		return fail(err)
	}
	dirs := e.PackagesForProperty(prop)
	if len(dirs) == 0 {
		return fail(fmt.Errorf("no contracts tagged with %s", prop))
	}
	if err := e.LoadPackages(dirs); err != nil {
		return fail(err)
	}
	scratch, err := os.MkdirTemp("", "govc-"+prop)
	if err != nil {
		return fail(err)
	}
	defer os.RemoveAll(scratch)
	e.ScratchDir = scratch

	var obs []*Obligation
	var fctxs []*FnCtx
	var funcs []string
	var transErrs []string
	var trustedContracts []string
	for _, cf := range e.Files {
		for _, c := range cf.Funcs {
			if c.Kind != "func" || !hasStr(c.Props, prop) {
				continue
			}
			if c.Flags["trusted"] {
				trustedContracts = append(trustedContracts, cf.PkgDir+": "+c.Name)
				continue
			}
			if c.Flags["trustedframe"] {
				trustedContracts = append(trustedContracts, cf.PkgDir+": frame condition (modifies clause) of "+c.Name+"; its other obligations are verified")
			}
			fn := e.FindFunction(c)
			if fn == nil {
				transErrs = append(transErrs, fmt.Sprintf("%s.%s: function under contract not found in the source", cf.PkgDir, c.Name))
				continue
			}
			fc := e.NewFnCtx(fn, c)
			if err := fc.Translate(); err != nil {
				transErrs = append(transErrs, err.Error())
				continue
			}
			fctxs = append(fctxs, fc)
			funcs = append(funcs, fc.name)
			obs = append(obs, fc.obligations...)
		}
	}
	lemmaObs := e.lemmaObligations(prop)
	obs = append(obs, lemmaObs...)
	e.DischargeAll(obs, workers())

	// thorough: every discharged obligation is re-submitted to the other solvers;
	// a contradicting answer (sat) is a failure of the machinery's trust base
	confirmed, contradicted := 0, []string{}
	if tier == "thorough" {
		confirmed, contradicted = e.crossCheck(obs)
	}
	// vacuity: the entry of every function (after its preconditions) must be reachable
	var vacuous []string
	type probeT struct {
		ob  *Obligation
		msg string
	}
	var probes []probeT
	for _, fc := range fctxs {
		probes = append(probes, probeT{&Obligation{Name: fc.name + ":entry-reachable", fc: fc, Block: fc.blocks[0], Index: len(fc.blocks[0].Cmds), Cond: TrueT},
			fc.name + ": preconditions are unsatisfiable"})
		for _, li := range fc.loopList {
			if li.Spec == nil || len(li.Spec.Invariants) == 0 {
				continue
			}
			pb := fc.pbOf[li.Header]
			if pb == nil {
				continue
			}
			probes = append(probes, probeT{&Obligation{Name: fmt.Sprintf("%s:loop%d-reachable", fc.name, li.Ord), fc: fc, Block: pb, Index: len(pb.Cmds), Cond: TrueT},
				fmt.Sprintf("%s: loop %d invariant is unsatisfiable or the loop is unreachable", fc.name, li.Ord)})
		}
	}
	{
		res := make([]string, len(probes))
		var wg sync.WaitGroup
		sem := make(chan struct{}, workers())
		for i := range probes {
			wg.Add(1)
			go func(i int) {
				defer wg.Done()
				sem <- struct{}{}
				defer func() { <-sem }()
				res[i] = e.Reachable(probes[i].ob)
			}(i)
		}
		wg.Wait()
		for i, r := range res {
			if r == "unsat" {
				vacuous = append(vacuous, probes[i].msg)
			}
		}
	}

	known := loadKnown(e.VerifDir)
	isKnown := func(ob *Obligation) *knownFinding {
		for i := range known {
			k := &known[i]
			// (a function may be listed under several properties: an open finding
			// is the same finding under whichever of them the check runs)
			if k.Status == "open" && k.Obligation == ob.Name {
				return k
			}
		}
		return nil
	}

	os.MkdirAll(filepath.Join(e.VerifDir, "replays"), 0755)
	evDir := filepath.Join(e.VerifDir, "evidence")
	if d := os.Getenv("VERIF_EVIDENCE_DIR"); d != "" {
		// (used by the seed/mutant tooling, which runs the checks on modified
		// copies of the repository and must not overwrite the evidence files)
		evDir = d
	}
	os.MkdirAll(evDir, 0755)
	nDis, nFail, nKnown := 0, 0, 0
	replayByFunc := map[string]*ReplayResult{}
	var samples []map[string]interface{}
	var failedList []map[string]interface{}
	var knownObs []map[string]interface{}
	solverMs := int64(0)
	bySolver := map[string]int{}
	exit := 0
	for _, ob := range obs {
		solverMs += ob.Ms
		if ob.Status == "discharged" {
			nDis++
			bySolver[ob.Solver]++
			if len(samples) < 12 || !ob.Auto && len(samples) < 40 {
				samples = append(samples, map[string]interface{}{"name": ob.Name, "kind": ob.Kind, "clause": ob.Desc, "at": ob.Pos, "solver": ob.Solver, "ms": ob.Ms})
			}
			continue
		}
		if k := isKnown(ob); k != nil {
			nKnown++
			fmt.Printf("KNOWN-FINDING: property=%s %s %s (failing input: %s)\n", prop, ob.Name, k.What, k.Input)
			knownObs = append(knownObs, map[string]interface{}{"name": ob.Name, "status": "failed", "input": k.Input, "what": k.What})
			continue
		}
		nFail++
		// look for a concrete failing input on the real code (once per function)
		if ob.fc != nil && ob.fc.fn != nil {
			if prev, ok := replayByFunc[ob.Func]; ok {
				ob.Replay = prev
			} else {
				ob.Replay = e.TryReplay(ob.fc, ob)
				replayByFunc[ob.Func] = ob.Replay
			}
		}
		replay := e.writeReplay(prop, ob)
		tail := ""
		if !ob.hasInput() {
			tail = " no-failing-input-found"
		}
		fmt.Printf("VIOLATION property=%s replay=%s obligation=%s%s\n", prop, replay, ob.Name, tail)
		failedList = append(failedList, map[string]interface{}{"name": ob.Name, "status": ob.Status, "answers": ob.Answers, "clause": ob.Desc, "at": ob.Pos})
		exit = 1
	}
	for _, te := range transErrs {
		nFail++
		name := fmt.Sprintf("translation-%d", nFail)
		ob := &Obligation{Name: prop + ":" + name, Kind: "translation", Desc: te, Status: "unknown", Model: te}
		replay := e.writeReplay(prop, ob)
		fmt.Printf("VIOLATION property=%s replay=%s obligation=%s no-failing-input-found\n", prop, replay, ob.Name)
		failedList = append(failedList, map[string]interface{}{"name": ob.Name, "status": "translation-error", "clause": te})
		exit = 1
	}
	for _, v := range vacuous {
		nFail++
		ob := &Obligation{Name: prop + ":vacuity", Kind: "vacuity", Desc: v, Status: "unknown", Model: v}
		replay := e.writeReplay(prop, ob)
		fmt.Printf("VIOLATION property=%s replay=%s obligation=%s no-failing-input-found\n", prop, replay, ob.Name)
		failedList = append(failedList, map[string]interface{}{"name": ob.Name, "status": "vacuous", "clause": v})
		exit = 1
	}

	// bounded stand-ins (labelled bounded, never counted as proved)
	var standinEv []map[string]interface{}
	for _, r := range e.runStandins(prop, tier, scratch) {
		if r.MachineKO != "" {
			return fail(fmt.Errorf("%s\n%s", r.MachineKO, r.Output))
		}
		rec := map[string]interface{}{
			"label":   "BOUNDED stand-in, not a proof",
			"name":    r.Spec.Name,
			"covers":  r.Spec.Covers,
			"bound":   strings.Replace(r.Spec.BoundText, "$BOUND", r.Bound, -1),
			"method":  "in-package Go test injected with go test -overlay, run against the real code of the working tree and compared with a byte-array model",
			"result":  map[bool]string{true: "pass", false: "FAIL"}[r.Passed],
			"summary": r.Summary,
			"seconds": r.Seconds,
		}
		if !r.Passed {
			rec["failures"] = r.Failures
			nFail++
			ob := &Obligation{Name: prop + ":bounded(" + r.Spec.Name + ")", Kind: "bounded-standin", Desc: r.Spec.Covers, Status: "failed", Model: strings.Join(r.Failures, "\n") + "\n\n" + r.Output}
			replay := e.writeReplay(prop, ob)
			// a failing operation sequence on the real code is a concrete input
			fmt.Printf("VIOLATION property=%s replay=%s obligation=%s input=%q\n", prop, replay, ob.Name, strings.Join(r.Failures, " | "))
			failedList = append(failedList, map[string]interface{}{"name": ob.Name, "status": "bounded-standin-failed", "clause": strings.Join(r.Failures, " | ")})
			exit = 1
		}
		standinEv = append(standinEv, rec)
	}

	// assumptions
	assume := map[string]bool{}
	var abstracted, warnings, arithMath []string
	for _, fc := range fctxs {
		for a := range fc.assumptions {
			assume[a] = true
		}
		for _, a := range fc.abstracted {
			abstracted = append(abstracted, fc.name+": "+a)
		}
		warnings = append(warnings, fc.warnings...)
		if !fc.arith {
			arithMath = append(arithMath, fc.name)
		}
	}
	meta := loadPropMeta(e.VerifDir, prop)
	assumptions := []string{
		"govc (this tool): SSA->VC translation, loop cutting, passification, regex compiler are trusted",
		"go/types, go/ssa (x/tools v0.29.0), Go front end; an 'unsat' answer of z3 4.8.12, z3 5.1.0 or cvc5 1.0.3",
		"goroutines, channels, mutexes and file locks are abstracted (no interleaving reasoning); a contract speaks about one activation of one function",
		"integer arithmetic is mathematical in functions not marked 'arith checked': " + strings.Join(arithMath, ", "),
		"package-level sentinel errors are non-nil, pairwise distinct and never reassigned (checked syntactically)",
		"nil-pointer dereference is not an obligation unless the contract enables safety class 'nil'",
	}
	for _, a := range sortedKeys(assume) {
		assumptions = append(assumptions, a)
	}
	assumptions = append(assumptions, meta.Assumed...)
	for _, t := range trustedContracts {
		assumptions = append(assumptions, "trusted (unverified) contract: "+t)
	}
	for k := range unknownCalls {
		assumptions = append(assumptions, "unmodelled call treated as havoc of the whole heap: "+k)
	}
	var replayable []string
	for _, fc := range fctxs {
		ok := fc.fn != nil && fc.fn.Parent() == nil && fc.fn.Signature.Recv() == nil
		if ok {
			for _, p := range fc.fn.Params {
				if replayKind(p.Type()) == "" {
					ok = false
				}
			}
		}
		if ok {
			replayable = append(replayable, fc.name)
		}
	}
	var unc []string
	for k := range uncontracted {
		unc = append(unc, k)
	}
	sort.Strings(unc)

	trusted := []string{"govc engine (/verif/engine)", "golang.org/x/tools v0.29.0 go/ssa + go/types", "z3 4.8.12 / z3 5.1.0 / cvc5 1.0.3", "library models in /verif/engine/lib*.go", "assumed interface contracts (iface/extern clauses in verif_contracts.go)"}
	ev := map[string]interface{}{
		"property_id": prop,
		"tier":        tier,
		"seed":        e.Seed,
		"level":       "proof",
		"wall_s":      time.Since(start).Seconds(),
		"violations":  nFail,
		"assumptions": assumptions,
		"coverage": map[string]interface{}{
			"obligations":                len(obs) - nKnown + len(transErrs) + len(vacuous),
			"discharged":                 nDis,
			"checker_cmd":                fmt.Sprintf("/verif/check %s %s  (govc: go/ssa naive form -> passive VCs -> z3-new | z3 | cvc5, timeout %ds per query)", prop, tier, e.Timeout),
			"trusted_base":               trusted,
			"functions_under_contract":   funcs,
			"samples":                    samples,
			"discharged_by_solver":       bySolver,
			"bounded_standins":           standinEv,
			"solver_time_s":              float64(solverMs) / 1000,
			"failed":                     failedList,
			"known_finding_obligations":  knownObs,
			"not_decided":                meta.NotDecided,
			"abstracted":                 abstracted,
			"uncontracted_callees_havoc": unc,
			"engine_warnings":            warnings,
			"lemmas":                     len(lemmaObs),
			"thorough_cross_check":       map[string]interface{}{"discharged_confirmed_by_second_solver": confirmed, "contradicted": contradicted},
			"must_fail_corpus":           loadMutantResult(e.VerifDir, prop),
			"replay":                     map[string]interface{}{"method": "on a failed obligation of one of these functions a bounded search over small inputs runs the contract (compiled to Go) against the real function via go test -overlay; a violating input removes the no-failing-input-found suffix", "functions": replayable},
			"packages":                   dirs,
		},
	}
	data, _ := json.MarshalIndent(ev, "", " ")
	if err := os.WriteFile(filepath.Join(evDir, prop+".json"), data, 0644); err != nil {
		return fail(err)
	}
	fmt.Printf("%s %s: %d obligations, %d discharged, %d failed, %d known findings, %d functions, %.1fs\n", prop, tier, len(obs), nDis, nFail, nKnown, len(funcs), time.Since(start).Seconds())
	if len(contradicted) > 0 && exit == 0 {
		fmt.Fprintf(os.Stderr, "govc: solvers disagree on %v\n", contradicted)
		return 2
	}
	return exit
}

func (ob *Obligation) hasInput() bool { return ob.Replay != nil && ob.Replay.Found }

func (e *Engine) writeReplay(prop string, ob *Obligation) string {
	dir := filepath.Join(e.VerifDir, "replays")
	base := prop + "-" + mangle(ob.Name)
	path := filepath.Join(dir, base+".json")
	smtCopy := ""
	if ob.SMTPath != "" {
		if data, err := os.ReadFile(ob.SMTPath); err == nil {
			smtCopy = filepath.Join(dir, base+".smt2")
			os.WriteFile(smtCopy, data, 0644)
		}
	}
	rec := map[string]interface{}{
		"property":   prop,
		"obligation": ob.Name,
		"kind":       ob.Kind,
		"function":   ob.Func,
		"clause":     ob.Desc,
		"at":         ob.Pos,
		"status":     ob.Status,
		"answers":    ob.Answers,
		"solver":     ob.Solver,
		"output":     ob.Model,
		"smt_file":   smtCopy,
		"input":      nil,
		"note":       "obligation not discharged; no concrete failing input was derived (no-failing-input-found)",
	}
	if ob.Replay != nil {
		rec["replay_search"] = map[string]interface{}{"tried": ob.Replay.Tried, "found": ob.Replay.Found, "reason": ob.Replay.Reason, "go_test": ob.Replay.TestFile, "test_output": ob.Replay.Output}
		if ob.Replay.Found {
			rec["input"] = ob.Replay.Input
			rec["failed_clause_on_real_code"] = ob.Replay.Clause
			rec["go_test"] = ob.Replay.TestFile
			rec["note"] = "the generated in-package test " + ob.Replay.TestFile + " (run with go test -overlay) executes the REAL function on this input and the contract is violated"
		}
	}
	data, _ := json.MarshalIndent(rec, "", " ")
	os.WriteFile(path, data, 0644)
	return path
}

func cmdReplay(path string) int {
	data, err := os.ReadFile(path)
	if err != nil {
		fmt.Fprintln(os.Stderr, err)
		return 2
	}
	var rec map[string]interface{}
	if err := json.Unmarshal(data, &rec); err != nil {
		fmt.Fprintln(os.Stderr, err)
		return 2
	}
	fmt.Printf("obligation: %v\nfunction:   %v\nclause:     %v\nat:         %v\nstatus:     %v (answers %v)\n", rec["obligation"], rec["function"], rec["clause"], rec["at"], rec["status"], rec["answers"])
	if f, ok := rec["smt_file"].(string); ok && f != "" {
		fmt.Printf("re-running solvers on %s\n", f)
		for _, sp := range solvers {
			a := runSolverSimple(sp, f, 30)
			fmt.Printf("  %-7s %s (%d ms)\n", sp.name, a.answer, a.ms)
		}
	}
	if t, ok := rec["go_test"].(string); ok && t != "" {
		fmt.Printf("recorded failing input: %v\nre-running the replay test %s against /repo\n", rec["input"], t)
		e := newEngineFromEnv()
		out, err := runReplayTest(e, t)
		fmt.Println(out)
		if err != nil {
			fmt.Println("replay test failed (the violation reproduces)")
			return 1
		}
		fmt.Println("replay test passed (the violation does not reproduce on the current tree)")
	}
	return 0
}

// workers: the solver processes of one obligation may run three at a time;
// keep the total near the core count so that wall-clock timeouts stay meaningful.
func workers() int {
	if w := envInt("GOVC_WORKERS", 0); w > 0 {
		return w
	}
	n := runtime.NumCPU() / 3
	if n < 2 {
		n = 2
	}
	return n
}

// crossCheck re-runs discharged obligations on the solvers that did not
// discharge them.
func (e *Engine) crossCheck(obs []*Obligation) (int, []string) {
	type res struct {
		name string
		ok   bool
		bad  bool
	}
	ch := make(chan res)
	sem := make(chan struct{}, workers())
	n := 0
	for _, ob := range obs {
		if ob.Status != "discharged" || ob.SMTPath == "" {
			continue
		}
		n++
		go func(ob *Obligation) {
			sem <- struct{}{}
			defer func() { <-sem }()
			r := res{name: ob.Name}
			for _, sp := range solvers {
				if sp.name == ob.Solver {
					continue
				}
				a := runSolverSimple(sp, ob.SMTPath, 20)
				if a.answer == "unsat" {
					r.ok = true
				}
				if a.answer == "sat" {
					r.bad = true
				}
			}
			ch <- r
		}(ob)
	}
	confirmed := 0
	var bad []string
	for i := 0; i < n; i++ {
		r := <-ch
		if r.ok {
			confirmed++
		}
		if r.bad {
			bad = append(bad, r.name)
		}
	}
	sort.Strings(bad)
	return confirmed, bad
}

func loadMutantResult(verif, prop string) interface{} {
	data, err := os.ReadFile(filepath.Join(verif, "selftest", "last_"+prop+".json"))
	if err != nil {
		return "not run in this tier (run by ./check <prop> thorough)"
	}
	var v interface{}
	json.Unmarshal(data, &v)
	return v
}

// cmdSweep: zero-annotation safety sweep.  Every function of the given
// packages is translated without a contract; only the automatic obligations
// (index/slice bounds, division by zero, explicit panic, make sizes) are
// generated.  Undischarged ones are candidates (most need a precondition),
// printed for triage; nothing here is a verdict.
func cmdSweep(dirs []string) int {
	e := newEngineFromEnv()
	e.Timeout = 5
	if err := e.LoadContracts(); err != nil {
		fmt.Fprintln(os.Stderr, err)
		return 2
	}
	if err := e.LoadPackages(dirs); err != nil {
		fmt.Fprintln(os.Stderr, err)
		return 2
	}
	scratch, _ := os.MkdirTemp("", "govc-sweep")
	defer os.RemoveAll(scratch)
	e.ScratchDir = scratch
	var obs []*Obligation
	nfn := 0
	for _, d := range dirs {
		path := repoModule + "/" + strings.TrimPrefix(d, "./")
		sp := e.Prog.ImportedPackage(path)
		if sp == nil {
			continue
		}
		dummy := &FuncContract{PkgPath: path, Name: "\x00none"}
		e.FindFunction(dummy)
		var names []string
		for k := range e.fnByName {
			if strings.HasPrefix(k, path+".") {
				names = append(names, k)
			}
		}
		sort.Strings(names)
		for _, k := range names {
			fn := e.fnByName[k]
			if len(fn.Blocks) == 0 || fn.Synthetic != "" || strings.HasPrefix(fn.Name(), "init") {
				continue
			}
			if pos := fn.Pos(); pos.IsValid() && strings.HasSuffix(e.Fset.Position(pos).Filename, "verif_contracts.go") {
				continue
			}
			fc := e.NewFnCtx(fn, nil)
			func() {
				defer func() {
					if r := recover(); r != nil {
						fmt.Printf("sweep: %s: translation aborted: %v\n", fc.name, r)
					}
				}()
				if err := fc.Translate(); err != nil {
					fmt.Printf("sweep: %s: %v\n", fc.name, err)
					return
				}
				nfn++
				obs = append(obs, fc.obligations...)
			}()
		}
	}
	e.DischargeAll(obs, workers())
	bad := 0
	for _, ob := range obs {
		if ob.Status != "discharged" {
			bad++
			fmt.Printf("%-10s %-40s %s  [%s]\n", ob.Status, ob.Name, ob.Desc, ob.Pos)
		}
	}
	fmt.Printf("sweep: %d functions, %d automatic safety obligations, %d not discharged without any contract\n", nfn, len(obs), bad)
	return 0
}
