package main

// Channel invariants:  `chan <name>: <predicate over $v>` in the contract of
// the function F that declares the local channel variable <name>.
//
// Rule (the classic channel-invariant rule, restricted to channels that are
// confined to one function and its closures):
//   - structural obligation F:chan(<name>).confined - the variable is a local
//     of F, assigned exactly once, from make(chan T); its value is used only as
//     the channel operand of send statements, receive expressions, receive
//     cases of select, range, len and cap, in F and in the closures that
//     capture it; it is never closed (a receive on a closed channel yields the
//     zero value, which need not satisfy the predicate), never sent in a
//     select, never copied, passed or stored;
//   - structural obligation F:chan(<name>).closures-verified - every closure
//     that captures the variable is under a verified (not trusted) contract
//     tagged with every property F is tagged with;
//   - proof obligation <G>:send#k.chaninv(<name>) at every send on it, in F
//     and in those closures G: the predicate holds for the value sent;
//   - at every receive expression on it the predicate is assumed of the value
//     received.

import (
	"fmt"
	"go/token"
	"go/types"
	"sort"

	"golang.org/x/tools/go/ssa"
)

type ChanInv struct {
	Name string
	Cl   *Clause
}

// chanCell resolves the channel operand of a send/receive (a load from a
// local or captured variable) to the allocation of that variable.
func chanCell(v ssa.Value) *ssa.Alloc {
	ld, ok := v.(*ssa.UnOp)
	if !ok || ld.Op != token.MUL {
		return nil
	}
	root := ld.X
	for {
		fv, ok := root.(*ssa.FreeVar)
		if !ok {
			break
		}
		fn := fv.Parent()
		idx := -1
		for i, x := range fn.FreeVars {
			if x == fv {
				idx = i
			}
		}
		parent := fn.Parent()
		if parent == nil || idx < 0 {
			return nil
		}
		var next ssa.Value
		for _, b := range parent.Blocks {
			for _, in := range b.Instrs {
				if mc, ok := in.(*ssa.MakeClosure); ok && mc.Fn == fn {
					if next != nil && next != mc.Bindings[idx] {
						return nil
					}
					next = mc.Bindings[idx]
				}
			}
		}
		if next == nil {
			return nil
		}
		root = next
	}
	a, _ := root.(*ssa.Alloc)
	return a
}

// chanInvFor: the channel invariant that governs the channel operand v, if
// the variable it is loaded from is declared with one by its (verified) owner.
func (fc *FnCtx) chanInvFor(v ssa.Value) *ChanInv {
	a := chanCell(v)
	if a == nil || a.Parent() == nil {
		return nil
	}
	ct := fc.eng.Contracts[qualifiedName(a.Parent())]
	if ct == nil || ct.Kind != "func" || ct.Flags["trusted"] {
		return nil
	}
	for _, ci := range ct.ChanInvs {
		if ci.Name == a.Comment {
			if _, ok := a.Type().Underlying().(*types.Pointer).Elem().Underlying().(*types.Chan); ok {
				return ci
			}
		}
	}
	return nil
}

func (fc *FnCtx) chanInvTerm(ci *ChanInv, v Val, ty types.Type, pos token.Pos) Term {
	sc := fc.funcScope(fc.env, fc.entryEnv, nil)
	sc.pos = pos
	sc.mode = "site"
	if v.P != nil {
		sc.extra = map[string]specVal{"$v": {p: v.P, ty: v.P.Type}}
	} else {
		sc.extra = map[string]specVal{"$v": {t: v.T, ty: ty}}
	}
	return sc.trBool(ci.Cl.E)
}

// chanConfined walks every use of the variable cell (an Alloc in the owner, a
// FreeVar in a closure).
func chanConfined(cell ssa.Value, owner bool, stores *int, closures map[*ssa.Function]bool) string {
	refs := cell.Referrers()
	if refs == nil {
		return "no referrer information"
	}
	for _, r := range *refs {
		switch x := r.(type) {
		case *ssa.DebugRef:
		case *ssa.Store:
			if x.Addr != cell || x.Val == cell {
				return "the variable's address is stored"
			}
			if !owner {
				return "the variable is assigned in a closure"
			}
			if _, ok := x.Val.(*ssa.MakeChan); !ok {
				return "the variable is assigned something other than make(chan ...)"
			}
			*stores++
		case *ssa.UnOp:
			if x.Op != token.MUL {
				return "unexpected use of the variable"
			}
			lrefs := x.Referrers()
			if lrefs == nil {
				return "no referrer information"
			}
			for _, u := range *lrefs {
				switch y := u.(type) {
				case *ssa.DebugRef:
				case *ssa.Send:
					if y.Chan != x || y.X == x {
						return "the channel is sent as a value"
					}
				case *ssa.UnOp:
					if y.Op != token.ARROW {
						return "unexpected use of the channel"
					}
				case *ssa.Range:
				case *ssa.Select:
					for _, st := range y.States {
						if st.Send == x {
							return "the channel is sent as a value"
						}
						if st.Chan == x && st.Dir != types.RecvOnly {
							return "send on the channel inside a select (not supported by the channel-invariant rule)"
						}
					}
				case *ssa.Call:
					b, ok := y.Call.Value.(*ssa.Builtin)
					if !ok || (b.Name() != "len" && b.Name() != "cap") {
						if ok && b.Name() == "close" {
							return "the channel is closed (a receive would yield the zero value)"
						}
						return "the channel is passed to a call"
					}
				default:
					return fmt.Sprintf("the channel value escapes (%T)", u)
				}
			}
		case *ssa.MakeClosure:
			fn, ok := x.Fn.(*ssa.Function)
			if !ok {
				return "captured by an unknown closure"
			}
			for i, b := range x.Bindings {
				if b == cell {
					if i >= len(fn.FreeVars) {
						return "captured by an unknown closure"
					}
					closures[fn] = true
					if why := chanConfined(fn.FreeVars[i], false, stores, closures); why != "" {
						return why
					}
				}
			}
		default:
			return fmt.Sprintf("the variable escapes (%T)", r)
		}
	}
	return ""
}

// checkChanInvs emits the two structural obligations per declared channel
// invariant of the function under verification.
func (fc *FnCtx) checkChanInvs() {
	if fc.contract == nil {
		return
	}
	for _, ci := range fc.contract.ChanInvs {
		var cells []*ssa.Alloc
		for _, b := range fc.fn.Blocks {
			for _, in := range b.Instrs {
				if a, ok := in.(*ssa.Alloc); ok && a.Comment == ci.Name {
					if p, ok := a.Type().Underlying().(*types.Pointer); ok {
						if _, ok := p.Elem().Underlying().(*types.Chan); ok {
							cells = append(cells, a)
						}
					}
				}
			}
		}
		why := ""
		closures := map[*ssa.Function]bool{}
		if len(cells) != 1 {
			why = fmt.Sprintf("%d local channel variables of that name", len(cells))
		} else {
			stores := 0
			why = chanConfined(cells[0], true, &stores, closures)
			if why == "" && stores != 1 {
				why = fmt.Sprintf("the variable is assigned %d times", stores)
			}
		}
		fc.structural(fmt.Sprintf("%s:chan(%s).confined", fc.name, ci.Name), "chaninv",
			"channel variable is local, made once, never closed, copied or passed: "+ci.Cl.Src, why)
		why = ""
		var names []string
		for fn := range closures {
			names = append(names, qualifiedName(fn))
		}
		sort.Strings(names)
		for _, n := range names {
			ct := fc.eng.Contracts[n]
			if ct == nil || ct.Kind != "func" || ct.Flags["trusted"] {
				why = "closure " + n + " captures the channel and is not under a verified contract"
				break
			}
			for _, p := range fc.contract.Props {
				if !hasStr(ct.Props, p) {
					why = "closure " + n + " captures the channel and is not tagged with property " + p
				}
			}
		}
		fc.structural(fmt.Sprintf("%s:chan(%s).closures-verified", fc.name, ci.Name), "chaninv",
			"every closure that captures the channel is verified under the same properties", why)
	}
}

// structural records an obligation decided by inspection of the SSA form.
func (fc *FnCtx) structural(name, kind, desc, why string) {
	ob := &Obligation{Name: name, Kind: kind, Func: fc.name, Desc: desc, Block: fc.blocks[0], Index: 0, Cond: TrueT, fc: fc,
		Status: "discharged", Solver: "structural"}
	if fc.contract != nil {
		ob.Props = fc.contract.Props
	}
	if why != "" {
		ob.Cond = FalseT
		ob.Status = "failed"
		ob.Desc = desc + " - " + why
	}
	if fc.fn.Pos().IsValid() && fc.eng.Fset != nil {
		p := fc.eng.Fset.Position(fc.fn.Pos())
		ob.Pos = fmt.Sprintf("%s:%d", relPath(fc.eng.RepoDir, p.Filename), p.Line)
	}
	fc.obligations = append(fc.obligations, ob)
}
