package main

// Instruction semantics.

import (
	"fmt"
	"go/token"
	"go/types"
	"sort"
	"strings"

	"golang.org/x/tools/go/ssa"
)

// ----------------------------------------------------------------- memory model

func (fc *FnCtx) heapFieldVar(si *StructInfo, field int) string {
	f := si.Fields[field]
	name := "H_" + si.Name[2:] + "_" + mangle(f.Name)
	fc.stateVar(name, ArraySort(SInt, f.Sort), true)
	return name
}

func (fc *FnCtx) starVar(t types.Type) string {
	sort := fc.eng.U.SortOf(t)
	name := "P_" + typeKey(t)
	fc.stateVar(name, ArraySort(SInt, sort), true)
	return name
}

// typeKey: a name for a Go type that is equal for identical types.
func typeKey(t types.Type) string {
	t = types.Unalias(t)
	if b, ok := t.(*types.Basic); ok {
		switch b.Kind() {
		case types.Uint8:
			return "uint8"
		case types.Int32:
			return "int32"
		}
		return b.Name()
	}
	return mangle(types.TypeString(t, func(p *types.Package) string { return p.Name() }))
}

func (fc *FnCtx) memVar(elem types.Type) string {
	sort := fc.eng.U.SortOf(elem)
	name := "Mem_" + typeKey(elem)
	fc.stateVar(name, ArraySort(SInt, ArraySort(SInt, sort)), true)
	return name
}

func (fc *FnCtx) mapVars(mt *types.Map) (dom, val, ln string) {
	u := fc.eng.U
	ks, vs := u.SortOf(mt.Key()), u.SortOf(mt.Elem())
	// one set of heap variables per Go map type (maps of different types cannot alias)
	key := typeKey(mt.Key()) + "_" + typeKey(mt.Elem())
	dom = "MapDom_" + key
	val = "MapVal_" + key
	ln = "MapLen_" + key
	fc.stateVar(dom, ArraySort(SInt, ArraySort(ks, SBool)), true)
	fc.stateVar(val, ArraySort(SInt, ArraySort(ks, vs)), true)
	fc.stateVar(ln, ArraySort(SInt, SInt), true)
	return
}

// rootLoad reads the value at the root of a place (ignoring its path).
func (fc *FnCtx) rootLoad(env *Env, p *Place) Term {
	u := fc.eng.U
	switch p.Kind {
	case PCell:
		return fc.lookupIn(env, p.Var)
	case PGlobal:
		return Term{p.Var, u.SortOf(p.Type)}
	case PHeapField, PStar:
		return Select(fc.lookupIn(env, p.Var), p.Ref)
	case PElem:
		return Select(Select(fc.lookupIn(env, p.Var), p.Ref), p.Idx)
	case PHeapStruct:
		si := p.Struct
		args := make([]Term, len(si.Fields))
		for i := range si.Fields {
			args[i] = Select(fc.lookupIn(env, fc.heapFieldVar(si, i)), p.Ref)
		}
		if len(args) == 0 {
			return Term{"mk_" + si.Name, Sort(si.Name)}
		}
		return App(Sort(si.Name), "mk_"+si.Name, args...)
	}
	panic("rootLoad")
}

func applyPath(v Term, path []PathStep) Term {
	for _, s := range path {
		if s.Index != nil {
			v = Select(v, *s.Index)
		} else {
			f := s.Struct.Fields[s.Field]
			v = App(f.Sort, f.Sel, v)
		}
	}
	return v
}

func updatePath(root Term, path []PathStep, v Term) Term {
	if len(path) == 0 {
		return v
	}
	s := path[0]
	if s.Index != nil {
		inner := updatePath(Select(root, *s.Index), path[1:], v)
		return Store(root, *s.Index, inner)
	}
	si := s.Struct
	args := make([]Term, len(si.Fields))
	for i, f := range si.Fields {
		cur := App(f.Sort, f.Sel, root)
		if i == s.Field {
			args[i] = updatePath(cur, path[1:], v)
		} else {
			args[i] = cur
		}
	}
	return App(Sort(si.Name), "mk_"+si.Name, args...)
}

func (fc *FnCtx) loadPlaceIn(env *Env, p *Place) Term {
	if p.Kind == PHeapStruct && len(p.Path) > 0 && p.Path[0].Index == nil {
		q := fc.normHeapStruct(p)
		return fc.loadPlaceIn(env, q)
	}
	return applyPath(fc.rootLoad(env, p), p.Path)
}

func (fc *FnCtx) normHeapStruct(p *Place) *Place {
	if p.Kind == PHeapStruct && len(p.Path) > 0 && p.Path[0].Index == nil {
		st := p.Path[0]
		return &Place{Kind: PHeapField, Var: fc.heapFieldVar(p.Struct, st.Field), Ref: p.Ref, Path: p.Path[1:], Type: p.Type}
	}
	return p
}

func (fc *FnCtx) storePlace(p *Place, v Term) {
	p = fc.normHeapStruct(p)
	if fc.volatile != nil && p.Kind != PCell && fc.volatile.has(p.Var) {
		// writes to memory shared with a spawned goroutine are not tracked
	}
	switch p.Kind {
	case PCell:
		nv := updatePath(fc.lookup(p.Var), p.Path, v)
		if len(p.Path) == 0 {
			nv = v
		}
		fc.assign(p.Var, nv)
	case PGlobal:
		fc.warn("store to package-level variable %s is not modelled", p.Var)
	case PHeapField, PStar:
		m := fc.lookup(p.Var)
		nv := v
		if len(p.Path) > 0 {
			nv = updatePath(Select(m, p.Ref), p.Path, v)
		}
		fc.assign(p.Var, Store(m, p.Ref, nv))
	case PElem:
		m := fc.lookup(p.Var)
		row := Select(m, p.Ref)
		nv := v
		if len(p.Path) > 0 {
			nv = updatePath(Select(row, p.Idx), p.Path, v)
		}
		fc.assign(p.Var, Store(m, p.Ref, Store(row, p.Idx, nv)))
	case PHeapStruct:
		si := p.Struct
		for i, f := range si.Fields {
			name := fc.heapFieldVar(si, i)
			fc.assign(name, Store(fc.lookup(name), p.Ref, App(f.Sort, f.Sel, v)))
		}
	}
}

// placeOfPtr interprets a pointer term of static type *T as a place.
func (fc *FnCtx) placeOfPtr(ref Term, elem types.Type) *Place {
	u := fc.eng.U
	if si := u.StructOf(elem); si != nil && !opaqueNamed(elem) {
		return &Place{Kind: PHeapStruct, Ref: ref, Struct: si, Type: elem}
	}
	return &Place{Kind: PStar, Var: fc.starVar(elem), Ref: ref, Type: elem}
}

func (fc *FnCtx) placeOf(v ssa.Value) *Place {
	x := fc.value(v)
	if x.P != nil {
		return x.P
	}
	pt, ok := v.Type().Underlying().(*types.Pointer)
	if !ok {
		fc.fail("placeOf non-pointer %s", v.Name())
	}
	return fc.placeOfPtr(x.T, pt.Elem())
}

func extendPlace(p *Place, step PathStep, t types.Type) *Place {
	np := *p
	np.key = ""
	np.Path = append(append([]PathStep{}, p.Path...), step)
	np.Type = t
	return &np
}

// ---------------------------------------------------------------- instructions

func (fc *FnCtx) doInstr(in ssa.Instruction) {
	u := fc.eng.U
	switch x := in.(type) {
	case *ssa.DebugRef:
		return
	case *ssa.Alloc:
		fc.doAlloc(x)
	case *ssa.Phi:
		fc.vals[x] = TV(fc.lookup(fc.phiVar(x)))
	case *ssa.UnOp:
		fc.doUnOp(x)
	case *ssa.BinOp:
		fc.vals[x] = TV(fc.binop(x.Op, x.X.Type(), x.Type(), fc.term(x.X), fc.term(x.Y), x.Pos(), x.Y))
	case *ssa.Store:
		fc.doStore(x)
	case *ssa.FieldAddr:
		base := fc.placeOf(x.X)
		st := x.X.Type().Underlying().(*types.Pointer).Elem()
		si := u.StructOf(st)
		if si == nil || opaqueNamed(st) {
			fc.warn("field address into opaque type %s", st)
			fc.vals[x] = TV(fc.freshConst("opaqueaddr", SInt))
			return
		}
		if fc.safetyOn("nil") {
			if tv := fc.value(x.X); tv.P == nil {
				fc.assert("nil", fc.obName("nil"), T(SBool, "(not (= %s 0))", tv.T.S), "nil dereference", x.Pos(), true)
			}
		}
		fc.vals[x] = Val{P: fc.normHeapStruct(extendPlace(base, PathStep{Struct: si, Field: x.Field}, si.Fields[x.Field].Type))}
	case *ssa.Field:
		sv := fc.term(x.X)
		si := u.StructOf(x.X.Type())
		if si == nil || opaqueNamed(x.X.Type()) {
			fc.vals[x] = TV(fc.freshConst("opaquefield", u.SortOf(x.Type())))
			return
		}
		f := si.Fields[x.Field]
		fc.vals[x] = TV(App(f.Sort, f.Sel, sv))
	case *ssa.IndexAddr:
		fc.doIndexAddr(x)
	case *ssa.Index:
		// array or string value indexing
		idx := fc.term(x.Index)
		switch xt := x.X.Type().Underlying().(type) {
		case *types.Array:
			fc.boundsCheck(idx, IntLit(xt.Len()), x.Pos())
			fc.vals[x] = TV(Select(fc.term(x.X), idx))
		default:
			s := fc.term(x.X)
			fc.boundsCheck(idx, T(SInt, "(str.len %s)", s.S), x.Pos())
			r := T(SInt, "(str.to_code (str.at %s %s))", s.S, idx.S)
			fc.vals[x] = TV(r)
			fc.assume(T(SBool, "(and (<= 0 %s) (<= %s 255))", r.S, r.S))
		}
	case *ssa.Lookup:
		fc.doLookup(x)
	case *ssa.MapUpdate:
		fc.doMapUpdate(x)
	case *ssa.MakeMap:
		mt := x.Type().Underlying().(*types.Map)
		r := fc.newRef()
		dom, _, ln := fc.mapVars(mt)
		ks := u.SortOf(mt.Key())
		fc.assign(dom, Store(fc.lookup(dom), r, Term{fmt.Sprintf("((as const %s) false)", ArraySort(ks, SBool)), ArraySort(ks, SBool)}))
		fc.assign(ln, Store(fc.lookup(ln), r, IntLit(0)))
		fc.vals[x] = TV(r)
	case *ssa.MakeSlice:
		ln, cp := fc.term(x.Len), fc.term(x.Cap)
		if fc.safetyOn("makeslice") {
			fc.assert("makeslice", fc.obName("makeslice"), T(SBool, "(and (<= 0 %s) (<= %s %s))", ln.S, ln.S, cp.S), "make([]T, len, cap): 0 <= len <= cap", x.Pos(), true)
		}
		r := fc.newRef()
		et := x.Type().Underlying().(*types.Slice).Elem()
		mem := fc.memVar(et)
		es := u.SortOf(et)
		zero := u.Zero(et)
		fc.assign(mem, Store(fc.lookup(mem), r, Term{fmt.Sprintf("((as const %s) %s)", ArraySort(SInt, es), zero.S), ArraySort(SInt, es)}))
		fc.vals[x] = TV(T(SSlice, "(mkslice %s 0 %s %s)", r.S, ln.S, cp.S))
	case *ssa.MakeChan:
		r := fc.newRef()
		fc.eng.GDecl("chancap", "(declare-fun chancap (Int) Int)")
		fc.assume(T(SBool, "(= (chancap %s) %s)", r.S, fc.term(x.Size).S))
		fc.vals[x] = TV(r)
	case *ssa.MakeInterface:
		fc.vals[x] = TV(fc.box(x.X.Type(), fc.term(x.X)))
	case *ssa.MakeClosure:
		r := fc.newRef()
		fc.vals[x] = TV(r)
	case *ssa.Slice:
		fc.doSlice(x)
	case *ssa.Convert:
		fc.doConvert(x)
	case *ssa.ChangeType:
		fc.vals[x] = TV(fc.term(x.X))
	case *ssa.ChangeInterface:
		fc.vals[x] = TV(fc.term(x.X))
	case *ssa.SliceToArrayPointer:
		fc.vals[x] = TV(fc.freshConst("s2ap", SInt))
	case *ssa.TypeAssert:
		fc.doTypeAssert(x)
	case *ssa.Extract:
		tv := fc.value(x.Tuple)
		if tv.Tuple == nil {
			fc.fail("extract from non-tuple %s", x.Tuple.Name())
		}
		if tv.TupP != nil && tv.TupP[x.Index] != nil {
			fc.vals[x] = Val{P: tv.TupP[x.Index]}
		} else {
			fc.vals[x] = TV(tv.Tuple[x.Index])
		}
	case *ssa.Range:
		fc.doRange(x)
	case *ssa.Next:
		fc.doNext(x)
	case *ssa.Call:
		fc.doCall(x)
	case *ssa.Go:
		fc.doGo(x)
	case *ssa.Defer:
		fc.deferred = append(fc.deferred, x)
		// evaluate arguments (no effect)
	case *ssa.RunDefers:
		fc.doRunDefers(x)
	case *ssa.Send:
		fc.doSend(x)
	case *ssa.Select:
		fc.doSelect(x)
	case *ssa.Panic:
		if fc.safetyOn("nopanic") {
			fc.assert("nopanic", fc.obName("nopanic"), FalseT, "explicit panic is unreachable", x.Pos(), true)
		}
		// no successors
	case *ssa.Return:
		fc.doReturn(x)
	case *ssa.If:
		c := fc.term(x.Cond)
		b := x.Block()
		save := fc.cur
		fc.edge(b.Succs[0], c)
		fc.cur = save
		fc.edge(b.Succs[1], Not(c))
	case *ssa.Jump:
		fc.edge(x.Block().Succs[0], TrueT)
	default:
		fc.warn("unsupported instruction %T", in)
		fc.unsupported++
		fc.havocHeap()
		if v, ok := in.(ssa.Value); ok {
			fc.vals[v] = TV(fc.freshConst("unsup", u.SortOf(v.Type())))
		}
	}
}

// allocEvent: the heap incarnations current just before an allocation; a
// reference read from an unchanged heap variable predates the allocation.
type allocEvent struct {
	inc    map[string]string
	epoch  int
	before Term
}

func (fc *FnCtx) newRef() Term {
	old := fc.lookup("alloc")
	ev := &allocEvent{inc: map[string]string{}, epoch: fc.env.epoch, before: old}
	for k, v := range fc.env.inc {
		if fc.svHeap[k] {
			ev.inc[k] = v
		}
	}
	fc.allocEvents = append(fc.allocEvents, ev)
	r := fc.freshConst("ref", SInt)
	fc.assume(T(SBool, "(= %s (+ %s 1))", r.S, old.S))
	fc.assign("alloc", r)
	return r
}

func (fc *FnCtx) cellName(a *ssa.Alloc) string {
	c := a.Comment
	if c == "" {
		c = "tmp"
	}
	return "c_" + mangle(c) + "_" + a.Name()
}

func (fc *FnCtx) doAlloc(a *ssa.Alloc) {
	u := fc.eng.U
	et := a.Type().Underlying().(*types.Pointer).Elem()
	if !a.Heap {
		name := fc.cellName(a)
		fc.stateVar(name, u.SortOf(et), false)
		fc.assign(name, u.Zero(et))
		delete(fc.env.places, name)
		fc.vals[a] = Val{P: &Place{Kind: PCell, Var: name, Type: et}}
		return
	}
	if name, ok := fc.eng.sharedCell(a); ok {
		fc.stateVar(name, u.SortOf(et), false)
		fc.assign(name, u.Zero(et))
		delete(fc.env.places, name)
		fc.vals[a] = Val{P: &Place{Kind: PCell, Var: name, Type: et}}
		return
	}
	r := fc.newRef()
	p := fc.placeOfPtr(r, et)
	fc.storePlace(p, u.Zero(et))
	fc.vals[a] = Val{P: p}
}

// sharedCell: a local variable captured by closures whose address never
// escapes otherwise is modelled as a named cell shared between the function
// and its closures (instead of an anonymous heap location).
var sharedMemo = map[ssa.Value]string{}

func (e *Engine) sharedCell(v ssa.Value) (string, bool) {
	if n, ok := sharedMemo[v]; ok {
		return n, n != ""
	}
	sharedMemo[v] = ""
	root := v
	// resolve free variables to the allocation they are bound to
	for {
		fv, ok := root.(*ssa.FreeVar)
		if !ok {
			break
		}
		fn := fv.Parent()
		idx := -1
		for i, x := range fn.FreeVars {
			if x == fv {
				idx = i
			}
		}
		parent := fn.Parent()
		if parent == nil || idx < 0 {
			return "", false
		}
		var next ssa.Value
		for _, b := range parent.Blocks {
			for _, in := range b.Instrs {
				if mc, ok := in.(*ssa.MakeClosure); ok && mc.Fn == fn {
					if next != nil && next != mc.Bindings[idx] {
						return "", false
					}
					next = mc.Bindings[idx]
				}
			}
		}
		if next == nil {
			return "", false
		}
		root = next
	}
	a, ok := root.(*ssa.Alloc)
	if !ok || !a.Heap {
		return "", false
	}
	if n, ok := sharedMemo[a]; ok && a != v {
		sharedMemo[v] = n
		return n, n != ""
	}
	if !e.addrPrivate(a, map[ssa.Value]bool{}) {
		return "", false
	}
	line := 0
	if e.Fset != nil && a.Pos().IsValid() {
		line = e.Fset.Position(a.Pos()).Line
	}
	c := a.Comment
	if c == "" {
		c = "tmp"
	}
	name := fmt.Sprintf("sc_%s_%s_L%d", mangle(c), a.Name(), line)
	sharedMemo[a] = name
	sharedMemo[v] = name
	return name, true
}

// addrPrivate: the address held in v is only loaded from, stored to, or
// captured by closures in which the same holds.
func (e *Engine) addrPrivate(v ssa.Value, seen map[ssa.Value]bool) bool {
	if seen[v] {
		return true
	}
	seen[v] = true
	refs := v.Referrers()
	if refs == nil {
		return false
	}
	for _, r := range *refs {
		switch x := r.(type) {
		case *ssa.DebugRef:
		case *ssa.UnOp:
			if x.Op != token.MUL {
				return false
			}
		case *ssa.Store:
			if x.Val == v {
				return false
			}
		case *ssa.FieldAddr:
			if !e.addrPrivate(x, seen) {
				return false
			}
		case *ssa.IndexAddr:
			if !e.addrPrivate(x, seen) {
				return false
			}
		case *ssa.MakeClosure:
			fn := x.Fn.(*ssa.Function)
			for i, b := range x.Bindings {
				if b == v {
					if !e.addrPrivate(fn.FreeVars[i], seen) {
						return false
					}
				}
			}
		default:
			return false
		}
	}
	return true
}

func (fc *FnCtx) doUnOp(x *ssa.UnOp) {
	u := fc.eng.U
	switch x.Op {
	case token.MUL:
		xv := fc.value(x.X)
		if xv.P == nil && fc.safetyOn("nil") {
			fc.assert("nil", fc.obName("nil"), T(SBool, "(not (= %s 0))", xv.T.S), "nil dereference", x.Pos(), true)
		}
		p := fc.placeOf(x.X)
		// pointer cell with statically known target
		if p.Kind == PCell && len(p.Path) == 0 {
			if q, ok := fc.env.places[p.Var]; ok {
				fc.vals[x] = Val{P: q}
				return
			}
		}
		var t Term
		if fc.volatile != nil && p.Kind != PGlobal && (p.Kind != PCell || strings.HasPrefix(p.Var, "sc_")) && fc.isVolatilePlace(p) {
			t = fc.freshConst("volatile", u.SortOf(x.Type()))
			fc.abstractedNote("reads of memory written by a spawned goroutine are unconstrained")
		} else {
			t = fc.loadPlaceIn(fc.env, p)
		}
		// name the loaded value so that later terms stay small
		r := fc.freshConst(x.Name(), u.SortOf(x.Type()))
		fc.assume(Eq(r, t))
		fc.assume(fc.typeFacts(x.Type(), r, 2))
		fc.vals[x] = TV(r)
	case token.NOT:
		fc.vals[x] = TV(Not(fc.term(x.X)))
	case token.SUB:
		v := fc.term(x.X)
		if v.Sort == SReal {
			fc.vals[x] = TV(T(SReal, "(- %s)", v.S))
		} else {
			fc.vals[x] = TV(T(SInt, "(- %s)", v.S))
		}
	case token.XOR:
		fc.eng.GDecl("bitnot", "(declare-fun bitnot (Int) Int)")
		fc.vals[x] = TV(T(SInt, "(bitnot %s)", fc.term(x.X).S))
	case token.ARROW:
		fc.doRecv(x)
	default:
		fc.fail("unop %s", x.Op)
	}
}

func (fc *FnCtx) isVolatilePlace(p *Place) bool {
	p = fc.normHeapStruct(p)
	if p.Kind == PHeapStruct {
		for i := range p.Struct.Fields {
			if fc.volatile.has(fc.heapFieldVar(p.Struct, i)) {
				return true
			}
		}
		return false
	}
	return fc.volatile.has(p.Var)
}

func (fc *FnCtx) abstractedNote(s string) {
	for _, x := range fc.abstracted {
		if x == s {
			return
		}
	}
	fc.abstracted = append(fc.abstracted, s)
}

func (fc *FnCtx) doStore(x *ssa.Store) {
	p := fc.placeOf(x.Addr)
	vv := fc.value(x.Val)
	if vv.P != nil {
		// storing a pointer with statically known target into a local cell:
		// remember the target
		if p.Kind == PCell && len(p.Path) == 0 {
			fc.assign(p.Var, fc.addrTerm(vv.P))
			fc.env.places[p.Var] = vv.P
			fc.assignAnchors(x)
			return
		}
		fc.storePlace(p, fc.addrTerm(vv.P))
		fc.assignAnchors(x)
		return
	}
	if p.Kind == PCell && len(p.Path) == 0 {
		delete(fc.env.places, p.Var)
		if mc, ok := x.Val.(*ssa.MakeClosure); ok {
			if _, seen := fc.closureOf[p.Var]; !seen {
				fc.closureOf[p.Var] = mc
			} else {
				fc.closureOf[p.Var] = nil
			}
		}
	}
	fc.storePlace(p, vv.T)
	fc.assignAnchors(x)
}

// assignAnchors runs "at assign v#k" clauses after the k-th store (in source
// order) to the local variable v.
func (fc *FnCtx) assignAnchors(x *ssa.Store) {
	if fc.contract == nil || len(fc.contract.Asserts) == 0 {
		return
	}
	if fa, ok := x.Addr.(*ssa.FieldAddr); ok {
		fc.fieldAssignAnchors(x, fa)
		return
	}
	a, ok := x.Addr.(*ssa.Alloc)
	if !ok || a.Comment == "" {
		return
	}
	if fc.storeOrd == nil {
		fc.storeOrd = map[*ssa.Store]int{}
		byVar := map[*ssa.Alloc][]*ssa.Store{}
		for _, b := range fc.fn.Blocks {
			for _, in := range b.Instrs {
				if st, ok := in.(*ssa.Store); ok {
					if al, ok := st.Addr.(*ssa.Alloc); ok && al.Comment != "" {
						if _, isParam := st.Val.(*ssa.Parameter); isParam {
							continue
						}
						byVar[al] = append(byVar[al], st)
					}
				}
			}
		}
		for _, sts := range byVar {
			sort.SliceStable(sts, func(i, j int) bool { return sts[i].Pos() < sts[j].Pos() })
			for i, st := range sts {
				fc.storeOrd[st] = i + 1
			}
		}
	}
	ord := fc.storeOrd[x]
	for _, aa := range fc.contract.Asserts {
		if aa.Anchor != "assign" || aa.Var != a.Comment || aa.Ord != ord {
			continue
		}
		// (several variables may share a name: the clause then applies to the
		// k-th store of each of them)
		aa.Matched++
		sc := fc.funcScope(fc.env, fc.entryEnv, nil)
		sc.pos = x.Pos()
		sc.mode = "site"
		if aa.Set != nil {
			t, _ := sc.tr(aa.Set.E)
			if _, ok := fc.ghostTypes[aa.Set.Name]; !ok {
				fc.fail("set of undeclared ghost %s", aa.Set.Name)
			}
			fc.assign("g_"+aa.Set.Name, t)
		} else {
			fc.assert("assert", fmt.Sprintf("%s:assign(%s)#%d.assert#%d", fc.name, aa.Var, aa.Ord, aa.Cl.N), sc.trBool(aa.Cl.E), aa.Cl.Src, x.Pos(), false)
		}
	}
}

func fieldAddrName(fa *ssa.FieldAddr) string {
	st, ok := fa.X.Type().Underlying().(*types.Pointer).Elem().Underlying().(*types.Struct)
	if !ok {
		return ""
	}
	return "." + st.Field(fa.Field).Name()
}

// fieldAssignAnchors runs "at assign .f#k" clauses after the k-th store (in
// source order) to a field named f.
func (fc *FnCtx) fieldAssignAnchors(x *ssa.Store, fa *ssa.FieldAddr) {
	name := fieldAddrName(fa)
	if name == "" {
		return
	}
	if fc.fieldStoreOrd == nil {
		fc.fieldStoreOrd = map[*ssa.Store]int{}
		byName := map[string][]*ssa.Store{}
		for _, b := range fc.fn.Blocks {
			for _, in := range b.Instrs {
				if st, ok := in.(*ssa.Store); ok {
					if f, ok := st.Addr.(*ssa.FieldAddr); ok && st.Pos().IsValid() {
						n := fieldAddrName(f)
						byName[n] = append(byName[n], st)
					}
				}
			}
		}
		for _, sts := range byName {
			sort.SliceStable(sts, func(i, j int) bool { return sts[i].Pos() < sts[j].Pos() })
			for i, st := range sts {
				fc.fieldStoreOrd[st] = i + 1
			}
		}
	}
	ord := fc.fieldStoreOrd[x]
	for _, aa := range fc.contract.Asserts {
		if aa.Anchor != "assign" || aa.Var != name || aa.Ord != ord {
			continue
		}
		aa.Matched++
		sc := fc.funcScope(fc.env, fc.entryEnv, nil)
		sc.pos = x.Pos()
		sc.mode = "site"
		// $v: the value being stored
		if vv := fc.value(x.Val); vv.P == nil && vv.isT {
			sc.extra = map[string]specVal{"$v": {t: vv.T, ty: x.Val.Type()}}
		}
		if aa.Set != nil {
			t, _ := sc.tr(aa.Set.E)
			if _, ok := fc.ghostTypes[aa.Set.Name]; !ok {
				fc.fail("set of undeclared ghost %s", aa.Set.Name)
			}
			fc.assign("g_"+aa.Set.Name, t)
		} else {
			fc.assert("assert", fmt.Sprintf("%s:assign(%s)#%d.assert#%d", fc.name, aa.Var, aa.Ord, aa.Cl.N), sc.trBool(aa.Cl.E), aa.Cl.Src, x.Pos(), false)
		}
	}
}

func (fc *FnCtx) boundsCheck(idx, ln Term, pos token.Pos) {
	if fc.safetyOn("bounds") {
		fc.assert("bounds", fc.obName("bounds"), T(SBool, "(and (<= 0 %s) (< %s %s))", idx.S, idx.S, ln.S), "index in range", pos, true)
	}
}

func (fc *FnCtx) doIndexAddr(x *ssa.IndexAddr) {
	idx := fc.term(x.Index)
	switch xt := x.X.Type().Underlying().(type) {
	case *types.Slice:
		s := fc.term(x.X)
		fc.boundsCheck(idx, T(SInt, "(s_len %s)", s.S), x.Pos())
		fc.vals[x] = Val{P: &Place{Kind: PElem, Var: fc.memVar(xt.Elem()), Ref: T(SInt, "(s_arr %s)", s.S), Idx: fc.ix(T(SInt, "(s_off %s)", s.S), idx), Type: xt.Elem()}}
	case *types.Pointer:
		at := xt.Elem().Underlying().(*types.Array)
		fc.boundsCheck(idx, IntLit(at.Len()), x.Pos())
		base := fc.placeOf(x.X)
		i := idx
		fc.vals[x] = Val{P: extendPlace(base, PathStep{Index: &i, ElemT: at.Elem()}, at.Elem())}
	default:
		fc.fail("indexaddr on %s", x.X.Type())
	}
}

func (fc *FnCtx) doSlice(x *ssa.Slice) {
	var lo, hi, mx *Term
	if x.Low != nil {
		t := fc.term(x.Low)
		lo = &t
	}
	if x.High != nil {
		t := fc.term(x.High)
		hi = &t
	}
	if x.Max != nil {
		t := fc.term(x.Max)
		mx = &t
	}
	switch xt := x.X.Type().Underlying().(type) {
	case *types.Slice:
		s := fc.term(x.X)
		fc.vals[x] = TV(fc.sliceOfSlice(s, lo, hi, mx, x.Pos(), true))
	case *types.Basic: // string
		s := fc.term(x.X)
		fc.vals[x] = TV(fc.sliceOfString(s, lo, hi, x.Pos(), true))
	case *types.Pointer:
		// slicing an array through a pointer: a[:]
		at := xt.Elem().Underlying().(*types.Array)
		arrv := fc.loadPlaceIn(fc.env, fc.placeOf(x.X))
		r := fc.newRef()
		mem := fc.memVar(at.Elem())
		fc.assign(mem, Store(fc.lookup(mem), r, arrv))
		full := T(SSlice, "(mkslice %s 0 %d %d)", r.S, at.Len(), at.Len())
		if a, ok := x.X.(*ssa.Alloc); !ok || (a.Comment != "varargs" && a.Comment != "slicelit" && a.Comment != "makeslice") {
			fc.warn("slice of array: later writes through the slice are not reflected in the array")
		}
		fc.vals[x] = TV(fc.sliceOfSlice(full, lo, hi, mx, x.Pos(), true))
	default:
		fc.fail("slice of %s", x.X.Type())
	}
}

func (fc *FnCtx) sliceOfSlice(s Term, lo, hi, mx *Term, pos token.Pos, check bool) Term {
	l := IntLit(0)
	if lo != nil {
		l = *lo
	}
	h := T(SInt, "(s_len %s)", s.S)
	if hi != nil {
		h = *hi
	}
	capT := T(SInt, "(s_cap %s)", s.S)
	m := capT
	if mx != nil {
		m = *mx
	}
	if check && fc.safetyOn("bounds") {
		fc.assert("bounds", fc.obName("slice"), T(SBool, "(and (<= 0 %s) (<= %s %s) (<= %s %s) (<= %s %s))", l.S, l.S, h.S, h.S, m.S, m.S, capT.S), "slice bounds in range", pos, true)
	}
	return T(SSlice, "(mkslice (s_arr %[1]s) (+ (s_off %[1]s) %[2]s) (- %[3]s %[2]s) (- %[4]s %[2]s))", s.S, l.S, h.S, m.S)
}

func (fc *FnCtx) sliceOfString(s Term, lo, hi *Term, pos token.Pos, check bool) Term {
	l := IntLit(0)
	if lo != nil {
		l = *lo
	}
	h := T(SInt, "(str.len %s)", s.S)
	if hi != nil {
		h = *hi
	}
	if check && fc.safetyOn("bounds") {
		fc.assert("bounds", fc.obName("slice"), T(SBool, "(and (<= 0 %s) (<= %s %s) (<= %s (str.len %s)))", l.S, l.S, h.S, h.S, s.S), "string slice bounds in range", pos, true)
	}
	return T(SString, "(str.substr %s %s (- %s %s))", s.S, l.S, h.S, l.S)
}

// ------------------------------------------------------------------ operators

func pow2(k int64) string {
	r := "1"
	// decimal doubling
	for i := int64(0); i < k; i++ {
		carry := 0
		bs := []byte(r)
		for j := len(bs) - 1; j >= 0; j-- {
			d := int(bs[j]-'0')*2 + carry
			bs[j] = byte('0' + d%10)
			carry = d / 10
		}
		r = string(bs)
		if carry > 0 {
			r = "1" + r
		}
	}
	return r
}

func goDiv(a, b Term) Term {
	return T(SInt, "(ite (>= %[1]s 0) (div %[1]s %[2]s) (- (div (- %[1]s) %[2]s)))", a.S, b.S)
}

func goMod(a, b Term) Term {
	// a - b*trunc(a/b)
	return T(SInt, "(- %s (* %s %s))", a.S, b.S, goDiv(a, b).S)
}

func (fc *FnCtx) binop(op token.Token, opType types.Type, resType types.Type, a, b Term, pos token.Pos, yv ssa.Value) Term {
	isStr := a.Sort == SString
	isReal := a.Sort == SReal
	switch op {
	case token.ADD:
		if isStr {
			return T(SString, "(str.++ %s %s)", a.S, b.S)
		}
		if isReal {
			return T(SReal, "(+ %s %s)", a.S, b.S)
		}
		r := T(SInt, "(+ %s %s)", a.S, b.S)
		return fc.arithResult(r, resType, pos, "+")
	case token.SUB:
		if isReal {
			return T(SReal, "(- %s %s)", a.S, b.S)
		}
		r := T(SInt, "(- %s %s)", a.S, b.S)
		return fc.arithResult(r, resType, pos, "-")
	case token.MUL:
		if isReal {
			return T(SReal, "(* %s %s)", a.S, b.S)
		}
		r := T(SInt, "(* %s %s)", a.S, b.S)
		return fc.arithResult(r, resType, pos, "*")
	case token.QUO:
		if isReal {
			return T(SReal, "(/ %s %s)", a.S, b.S)
		}
		if fc.safetyOn("div") {
			fc.assert("div", fc.obName("div"), T(SBool, "(not (= %s 0))", b.S), "division by zero", pos, true)
		}
		return goDiv(a, b)
	case token.REM:
		if fc.safetyOn("div") {
			fc.assert("div", fc.obName("div"), T(SBool, "(not (= %s 0))", b.S), "division by zero", pos, true)
		}
		return goMod(a, b)
	case token.SHL, token.SHR:
		if c, ok := yv.(*ssa.Const); ok && c.Value != nil {
			k := c.Int64()
			p := pow2(k)
			if op == token.SHL {
				return fc.arithResult(T(SInt, "(* %s %s)", a.S, p), resType, pos, "<<")
			}
			return T(SInt, "(div %s %s)", a.S, p)
		}
		fc.eng.GDecl("bitshl", "(declare-fun bitshl (Int Int) Int)")
		fc.eng.GDecl("bitshr", "(declare-fun bitshr (Int Int) Int)")
		if op == token.SHL {
			return T(SInt, "(bitshl %s %s)", a.S, b.S)
		}
		return T(SInt, "(bitshr %s %s)", a.S, b.S)
	case token.AND, token.OR, token.XOR, token.AND_NOT:
		if op == token.AND && a.Sort == SInt {
			// x & constant: exact (bit k of x is (x div 2^k) mod 2, two's complement)
			if c, ok := yv.(*ssa.Const); ok && c.Value != nil {
				if m := c.Int64(); m >= 0 {
					return bitandConst(a, m)
				}
			}
			if m, ok := intLiteral(a); ok && m >= 0 {
				return bitandConst(b, m)
			}
		}
		if a.Sort == SBool {
			switch op {
			case token.AND:
				return And(a, b)
			case token.OR:
				return Or(a, b)
			}
		}
		name := map[token.Token]string{token.AND: "bitand", token.OR: "bitor", token.XOR: "bitxor", token.AND_NOT: "bitandnot"}[op]
		fc.eng.GDecl(name, fmt.Sprintf("(declare-fun %s (Int Int) Int)", name))
		fc.eng.bitAxioms()
		return T(SInt, "(%s %s %s)", name, a.S, b.S)
	case token.EQL:
		return Eq(a, b)
	case token.NEQ:
		return Not(Eq(a, b))
	case token.LSS, token.LEQ, token.GTR, token.GEQ:
		if isStr {
			switch op {
			case token.LSS:
				return T(SBool, "(str.< %s %s)", a.S, b.S)
			case token.LEQ:
				return T(SBool, "(str.<= %s %s)", a.S, b.S)
			case token.GTR:
				return T(SBool, "(str.< %s %s)", b.S, a.S)
			default:
				return T(SBool, "(str.<= %s %s)", b.S, a.S)
			}
		}
		o := map[token.Token]string{token.LSS: "<", token.LEQ: "<=", token.GTR: ">", token.GEQ: ">="}[op]
		return T(SBool, "(%s %s %s)", o, a.S, b.S)
	}
	fc.fail("binop %s", op)
	return Term{}
}

func (e *Engine) bitAxioms() {
	e.GAxiom("bitand_range", "(assert (forall ((x Int) (y Int)) (! (=> (and (>= x 0) (>= y 0)) (and (>= (bitand x y) 0) (<= (bitand x y) x) (<= (bitand x y) y))) :pattern ((bitand x y)))))", "bitand")
	e.GAxiom("bitand_zero", "(assert (forall ((x Int)) (! (= (bitand x 0) 0) :pattern ((bitand x 0)))))", "bitand")
	e.GAxiom("bitor_range", "(assert (forall ((x Int) (y Int)) (! (=> (and (>= x 0) (>= y 0)) (and (>= (bitor x y) x) (>= (bitor x y) y))) :pattern ((bitor x y)))))", "bitor")
}

// arithResult: in "arith checked" functions every fixed-width + - * gets a
// no-overflow obligation; elsewhere arithmetic is mathematical.
func (fc *FnCtx) arithResult(r Term, t types.Type, pos token.Pos, op string) Term {
	if fc.arith {
		if lo, hi, ok := intRange(t); ok {
			fc.assert("ovf", fc.obName("ovf"), T(SBool, "(and (<= %s %s) (<= %s %s))", BigLit(lo).S, r.S, r.S, BigLit(hi).S),
				fmt.Sprintf("no overflow/underflow in %s (%s)", op, t), pos, true)
		}
	}
	return r
}

func (fc *FnCtx) doConvert(x *ssa.Convert) {
	u := fc.eng.U
	from, to := x.X.Type().Underlying(), x.Type().Underlying()
	v := fc.term(x.X)
	fb, fok := from.(*types.Basic)
	tb, tok := to.(*types.Basic)
	switch {
	case fok && tok && fb.Info()&types.IsInteger != 0 && tb.Info()&types.IsInteger != 0:
		lo, hi, _ := intRange(to)
		flo, fhi, _ := intRange(from)
		if fb.Info()&types.IsUntyped != 0 {
			fc.vals[x] = TV(v)
			return
		}
		// widening conversions are the identity
		if cmpDec(flo, lo) >= 0 && cmpDec(fhi, hi) <= 0 {
			fc.vals[x] = TV(v)
			return
		}
		if fc.arith {
			fc.assert("ovf", fc.obName("ovf"), T(SBool, "(and (<= %s %s) (<= %s %s))", BigLit(lo).S, v.S, v.S, BigLit(hi).S),
				fmt.Sprintf("conversion %s -> %s preserves the value", x.X.Type(), x.Type()), x.Pos(), true)
			fc.vals[x] = TV(v)
			return
		}
		// mathematical-integer assumption: value preserved if in range, else unspecified in range
		r := fc.freshConst("conv", SInt)
		fc.assume(T(SBool, "(and (<= %[1]s %[3]s) (<= %[3]s %[2]s) (=> (and (<= %[1]s %[4]s) (<= %[4]s %[2]s)) (= %[3]s %[4]s)))", BigLit(lo).S, BigLit(hi).S, r.S, v.S))
		fc.vals[x] = TV(r)
	case fok && tok && fb.Info()&types.IsInteger != 0 && tb.Info()&types.IsFloat != 0:
		fc.vals[x] = TV(T(SReal, "(to_real %s)", v.S))
	case fok && tok && fb.Info()&types.IsFloat != 0 && tb.Info()&types.IsInteger != 0:
		// truncation toward zero
		fc.vals[x] = TV(T(SInt, "(ite (>= %[1]s 0.0) (to_int %[1]s) (- (to_int (- %[1]s))))", v.S))
	case fok && tok && fb.Info()&types.IsFloat != 0 && tb.Info()&types.IsFloat != 0:
		fc.vals[x] = TV(v)
	case fok && tok && fb.Info()&types.IsString != 0 && tb.Info()&types.IsString != 0:
		fc.vals[x] = TV(v)
	case tok && tb.Info()&types.IsString != 0:
		if _, ok := from.(*types.Slice); ok {
			fc.vals[x] = TV(fc.bstr(v))
			return
		}
		// string(rune)
		fc.eng.GDecl("runestr", "(declare-fun runestr (Int) String)")
		fc.vals[x] = TV(T(SString, "(runestr %s)", v.S))
	case fok && fb.Info()&types.IsString != 0:
		if st, ok := to.(*types.Slice); ok {
			r := fc.newRef()
			mem := fc.memVar(st.Elem())
			row := fc.freshConst("bytes", ArraySort(SInt, SInt))
			fc.assign(mem, Store(fc.lookup(mem), r, row))
			sl := T(SSlice, "(mkslice %s 0 (str.len %s) (str.len %s))", r.S, v.S, v.S)
			fc.bstrDecl()
			fc.assume(T(SBool, "(= (bstr %s 0 (str.len %s)) %s)", row.S, v.S, v.S))
			fc.assume(T(SBool, "(forall ((i Int)) (! (=> (and (<= 0 i) (< i (str.len %[2]s))) (= (select %[1]s i) (str.to_code (str.at %[2]s i)))) :pattern ((select %[1]s i))))", row.S, v.S))
			fc.vals[x] = TV(sl)
			return
		}
		fc.fail("convert string to %s", to)
	default:
		// pointer <-> unsafe.Pointer etc.
		fc.vals[x] = TV(Term{v.S, u.SortOf(x.Type())})
	}
}

func (fc *FnCtx) bstrDecl() {
	fc.eng.GDecl("bstr", "(declare-fun bstr ((Array Int Int) Int Int) String)")
	fc.eng.GAxiom("bstr_len", "(assert (forall ((m (Array Int Int)) (o Int) (n Int)) (! (=> (>= n 0) (= (str.len (bstr m o n)) n)) :pattern ((bstr m o n)))))", "bstr")
	fc.eng.GAxiom("bstr_one", "(assert (forall ((m (Array Int Int)) (o Int)) (! (=> (and (<= 0 (select m o)) (<= (select m o) 255)) (= (bstr m o 1) (str.from_code (select m o)))) :pattern ((bstr m o 1)))))", "bstr")
	fc.eng.GAxiom("bstr_split", "(assert (forall ((m (Array Int Int)) (o Int) (a Int) (c Int)) (! (=> (and (<= 0 a) (<= a c)) (= (bstr m o c) (str.++ (bstr m o a) (bstr m (+ o a) (- c a))))) :pattern ((bstr m o c) (bstr m o a)))))", "bstr")
	fc.eng.GAxiom("bstr_empty", "(assert (forall ((m (Array Int Int)) (o Int)) (! (= (bstr m o 0) \"\") :pattern ((bstr m o 0)))))", "bstr")
}

// bstr: the string denoted by a byte slice in the current memory.
func (fc *FnCtx) bstr(sl Term) Term {
	return fc.bstrIn(fc.env, sl)
}

func (fc *FnCtx) bstrIn(env *Env, sl Term) Term {
	fc.bstrDecl()
	mem := fc.lookupIn(env, fc.memVar(types.Typ[types.Uint8]))
	return T(SString, "(bstr (select %s (s_arr %s)) (s_off %s) (s_len %s))", mem.S, sl.S, sl.S, sl.S)
}

func cmpDec(a, b string) int {
	na, nb := strings.HasPrefix(a, "-"), strings.HasPrefix(b, "-")
	if na != nb {
		if na {
			return -1
		}
		return 1
	}
	if na {
		return -cmpDec(a[1:], b[1:])
	}
	if len(a) != len(b) {
		if len(a) < len(b) {
			return -1
		}
		return 1
	}
	return strings.Compare(a, b)
}

// ------------------------------------------------------------------ interfaces

func (fc *FnCtx) box(t types.Type, v Term) Term {
	u := fc.eng.U
	if _, ok := t.Underlying().(*types.Interface); ok {
		return v
	}
	sort := u.SortOf(t)
	key := mangle(types.TypeString(t, func(p *types.Package) string { return p.Name() }))
	bx, ubx := "box_"+key, "unbox_"+key
	tid := u.TypeID(t)
	e := fc.eng
	e.GDecl("typeof", "(declare-fun typeof (Int) Int)")
	e.GDecl(bx, fmt.Sprintf("(declare-fun %s (%s) Int)", bx, sort))
	e.GDecl(ubx, fmt.Sprintf("(declare-fun %s (Int) %s)", ubx, sort))
	e.GAxiom("ax_"+bx, fmt.Sprintf("(assert (forall ((x %s)) (! (and (= (%s (%s x)) x) (= (typeof (%s x)) %d) (> (%s x) 0)) :pattern ((%s x)))))", sort, ubx, bx, bx, tid, bx, bx), bx)
	return T(SInt, "(%s %s)", bx, v.S)
}

func (fc *FnCtx) unbox(t types.Type, v Term) (val Term, isT Term) {
	u := fc.eng.U
	sort := u.SortOf(t)
	key := mangle(types.TypeString(t, func(p *types.Package) string { return p.Name() }))
	fc.box(t, u.Zero(t)) // declare
	tid := u.TypeID(t)
	return T(sort, "(unbox_%s %s)", key, v.S), T(SBool, "(and (not (= %s 0)) (= (typeof %s) %d))", v.S, v.S, tid)
}

func (fc *FnCtx) doTypeAssert(x *ssa.TypeAssert) {
	u := fc.eng.U
	v := fc.term(x.X)
	if _, isIface := x.AssertedType.Underlying().(*types.Interface); isIface {
		name := "implements_" + mangle(types.TypeString(x.AssertedType, func(p *types.Package) string { return p.Name() }))
		fc.eng.GDecl("typeof", "(declare-fun typeof (Int) Int)")
		fc.eng.GDecl(name, fmt.Sprintf("(declare-fun %s (Int) Bool)", name))
		ok := T(SBool, "(and (not (= %s 0)) (%s (typeof %s)))", v.S, name, v.S)
		if x.CommaOk {
			fc.vals[x] = Val{Tuple: []Term{Ite(ok, v, IntLit(0)), ok}}
		} else {
			if fc.safetyOn("typeassert") {
				fc.assert("typeassert", fc.obName("typeassert"), ok, "type assertion succeeds", x.Pos(), true)
			}
			fc.vals[x] = TV(v)
		}
		return
	}
	val, ok := fc.unbox(x.AssertedType, v)
	if x.CommaOk {
		fc.vals[x] = Val{Tuple: []Term{Ite(ok, val, u.Zero(x.AssertedType)), ok}}
	} else {
		if fc.safetyOn("typeassert") {
			fc.assert("typeassert", fc.obName("typeassert"), ok, "type assertion succeeds", x.Pos(), true)
		}
		fc.vals[x] = TV(val)
	}
}

// ------------------------------------------------------------------------ maps

func (fc *FnCtx) doLookup(x *ssa.Lookup) {
	u := fc.eng.U
	switch xt := x.X.Type().Underlying().(type) {
	case *types.Map:
		m := fc.term(x.X)
		k := fc.term(x.Index)
		if _, isIface := xt.Key().Underlying().(*types.Interface); isIface {
			k = fc.box(x.Index.Type(), k)
		}
		dom, val, _ := fc.mapVars(xt)
		has := And(T(SBool, "(not (= %s 0))", m.S), Select(Select(fc.lookup(dom), m), k))
		v := Ite(has, Select(Select(fc.lookup(val), m), k), u.Zero(xt.Elem()))
		r := fc.freshConst(x.Name(), u.SortOf(xt.Elem()))
		fc.assume(Eq(r, v))
		fc.assume(fc.typeFacts(xt.Elem(), r, 2))
		if x.CommaOk {
			fc.vals[x] = Val{Tuple: []Term{r, has}}
		} else {
			fc.vals[x] = TV(r)
		}
	default: // string index
		s := fc.term(x.X)
		idx := fc.term(x.Index)
		fc.boundsCheck(idx, T(SInt, "(str.len %s)", s.S), x.Pos())
		r := fc.freshConst(x.Name(), SInt)
		fc.assume(T(SBool, "(= %s (str.to_code (str.at %s %s)))", r.S, s.S, idx.S))
		fc.assume(T(SBool, "(and (<= 0 %s) (<= %s 255))", r.S, r.S))
		fc.vals[x] = TV(r)
	}
}

func (fc *FnCtx) doMapUpdate(x *ssa.MapUpdate) {
	mt := x.Map.Type().Underlying().(*types.Map)
	m := fc.term(x.Map)
	k := fc.term(x.Key)
	if _, isIface := mt.Key().Underlying().(*types.Interface); isIface {
		k = fc.box(x.Key.Type(), k)
	}
	v := fc.term(x.Value)
	if _, isIface := mt.Elem().Underlying().(*types.Interface); isIface {
		v = fc.box(x.Value.Type(), v)
	}
	if fc.safetyOn("nil") {
		fc.assert("nil", fc.obName("nilmap"), T(SBool, "(not (= %s 0))", m.S), "assignment to entry in nil map", x.Pos(), true)
	}
	fc.mapStore(mt, m, k, v)
}

func (fc *FnCtx) mapStore(mt *types.Map, m, k, v Term) {
	dom, val, ln := fc.mapVars(mt)
	d := fc.lookup(dom)
	had := Select(Select(d, m), k)
	l := fc.lookup(ln)
	fc.assign(ln, Store(l, m, T(SInt, "(+ %s (ite %s 0 1))", Select(l, m).S, had.S)))
	fc.assign(dom, Store(d, m, Store(Select(d, m), k, TrueT)))
	vv := fc.lookup(val)
	fc.assign(val, Store(vv, m, Store(Select(vv, m), k, v)))
}

func (fc *FnCtx) mapDelete(mt *types.Map, m, k Term) {
	dom, _, ln := fc.mapVars(mt)
	d := fc.lookup(dom)
	had := Select(Select(d, m), k)
	l := fc.lookup(ln)
	fc.assign(ln, Store(l, m, T(SInt, "(- %s (ite %s 1 0))", Select(l, m).S, had.S)))
	fc.assign(dom, Store(d, m, Store(Select(d, m), k, FalseT)))
}

func (fc *FnCtx) doRange(x *ssa.Range) {
	u := fc.eng.U
	me := &mapEnum{}
	me.iter = fmt.Sprintf("iter_%s", x.Name())
	fc.stateVar(me.iter, SInt, false)
	switch xt := x.X.Type().Underlying().(type) {
	case *types.Map:
		m := fc.term(x.X)
		dom, val, ln := fc.mapVars(xt)
		ks := u.SortOf(xt.Key())
		me.keyT, me.valT = xt.Key(), xt.Elem()
		me.dom = fc.freshConst("rdom", ArraySort(ks, SBool))
		me.val = fc.freshConst("rval", ArraySort(ks, u.SortOf(xt.Elem())))
		fc.assume(Eq(me.dom, Select(fc.lookup(dom), m)))
		fc.assume(Eq(me.val, Select(fc.lookup(val), m)))
		me.n = fc.freshConst("rn", SInt)
		fc.assume(Eq(me.n, T(SInt, "(ite (= %s 0) 0 %s)", m.S, Select(fc.lookup(ln), m).S)))
		me.ek, me.eidx = fc.eng.enumFuncs(ks)
		fc.assume(T(SBool, "(>= %s 0)", me.n.S))
		fc.assume(T(SBool, "(forall ((i Int)) (! (=> (and (<= 0 i) (< i %[1]s)) (and (select %[2]s (%[3]s %[2]s i)) (= (%[4]s %[2]s (%[3]s %[2]s i)) i))) :pattern ((%[3]s %[2]s i))))", me.n.S, me.dom.S, me.ek, me.eidx))
		fc.assume(T(SBool, "(forall ((k %[5]s)) (! (=> (select %[2]s k) (and (<= 0 (%[4]s %[2]s k)) (< (%[4]s %[2]s k) %[1]s) (= (%[3]s %[2]s (%[4]s %[2]s k)) k))) :pattern ((select %[2]s k)) :pattern ((%[4]s %[2]s k))))", me.n.S, me.dom.S, me.ek, me.eidx, ks))
		fc.assumeNote("map iteration visits exactly the keys present when the loop starts, each once, in an arbitrary but (per map state) fixed order; the loop body does not insert into the map it ranges over")
	default: // string
		me.isString = true
		me.str = fc.term(x.X)
		me.n = T(SInt, "(str.len %s)", me.str.S)
	}
	fc.assign(me.iter, IntLit(0))
	fc.mapEnums[x] = me
	fc.vals[x] = TV(IntLit(0))
}

func (fc *FnCtx) doNext(x *ssa.Next) {
	u := fc.eng.U
	r, ok := x.Iter.(*ssa.Range)
	if !ok {
		fc.fail("next of non-range")
	}
	me := fc.mapEnums[r]
	pos := fc.lookup(me.iter)
	if me.isString {
		// range over string: rune decoding is abstracted (byte strings only: each step consumes one char)
		okT := T(SBool, "(< %s %s)", pos.S, me.n.S)
		ch := T(SInt, "(str.to_code (str.at %s %s))", me.str.S, pos.S)
		fc.assign(me.iter, T(SInt, "(+ %s 1)", pos.S))
		fc.assumeNote("range over string: every character is a single byte (no multi-byte UTF-8 sequences)")
		fc.vals[x] = Val{Tuple: []Term{okT, pos, ch}}
		return
	}
	okT := T(SBool, "(< %s %s)", pos.S, me.n.S)
	k := fc.freshConst("rk", u.SortOf(me.keyT))
	fc.assume(T(SBool, "(= %s (%s %s %s))", k.S, me.ek, me.dom.S, pos.S))
	v := fc.freshConst("rv", u.SortOf(me.valT))
	fc.assume(Eq(v, Select(me.val, k)))
	fc.assume(Implies(okT, fc.typeFacts(me.valT, v, 2)))
	fc.assume(Implies(okT, fc.typeFacts(me.keyT, k, 2)))
	fc.assign(me.iter, T(SInt, "(+ %s 1)", pos.S))
	fc.vals[x] = Val{Tuple: []Term{okT, k, v}}
}

// -------------------------------------------------------------------- channels

func (fc *FnCtx) doRecv(x *ssa.UnOp) {
	u := fc.eng.U
	ct := x.X.Type().Underlying().(*types.Chan)
	v := fc.freshConst("recv", u.SortOf(ct.Elem()))
	fc.assume(fc.typeFacts(ct.Elem(), v, 1))
	if ci := fc.chanInvFor(x.X); ci != nil {
		fc.assume(fc.chanInvTerm(ci, TV(v), ct.Elem(), x.Pos()))
		fc.abstractedNote("channel invariant of '" + ci.Name + "' (proved at every send; the channel is confined and never closed) is assumed of the value received")
	} else {
		fc.abstractedNote("channel receive yields an arbitrary value of the element type")
	}
	fc.havocVolatileOnSync()
	if x.CommaOk {
		ok := fc.freshConst("recvok", SBool)
		fc.vals[x] = Val{Tuple: []Term{v, ok}}
	} else {
		fc.vals[x] = TV(v)
	}
}

func (fc *FnCtx) havocVolatileOnSync() {}

func (fc *FnCtx) doSend(x *ssa.Send) {
	fc.abstractedNote("channel send is a no-op for the sender")
	v := fc.value(x.X)
	if fc.contract == nil {
		return
	}
	var sends []*ssa.Send
	for _, b := range fc.fn.Blocks {
		for _, in := range b.Instrs {
			if sd, ok := in.(*ssa.Send); ok {
				sends = append(sends, sd)
			}
		}
	}
	sort.Slice(sends, func(i, j int) bool { return sends[i].Pos() < sends[j].Pos() })
	ord := 0
	for i, sd := range sends {
		if sd == x {
			ord = i + 1
		}
	}
	if ci := fc.chanInvFor(x.Chan); ci != nil {
		fc.assert("chaninv", fmt.Sprintf("%s:send#%d.chaninv(%s)", fc.name, ord, ci.Name), fc.chanInvTerm(ci, v, x.X.Type(), x.Pos()), "channel invariant: "+ci.Cl.Src, x.Pos(), false)
	}
	for _, aa := range fc.contract.Asserts {
		if aa.Anchor != "send" || (aa.Ord != ord && aa.Ord != -1) || aa.Cl == nil {
			continue
		}
		aa.Matched++
		sc := fc.funcScope(fc.env, fc.entryEnv, nil)
		sc.pos = x.Pos()
		sc.mode = "site"
		if v.P != nil {
			sc.extra = map[string]specVal{"$v": {p: v.P, ty: v.P.Type}}
		} else {
			sc.extra = map[string]specVal{"$v": {t: v.T, ty: x.X.Type()}}
		}
		fc.assert("assert", fmt.Sprintf("%s:send#%d.assert#%d", fc.name, ord, aa.Cl.N), sc.trBool(aa.Cl.E), aa.Cl.Src, x.Pos(), false)
	}
}

func (fc *FnCtx) doSelect(x *ssa.Select) {
	u := fc.eng.U
	n := len(x.States)
	idx := fc.freshConst("selidx", SInt)
	lo := 0
	if !x.Blocking {
		lo = -1
	}
	fc.assume(T(SBool, "(and (<= %d %s) (< %s %d))", lo, idx.S, idx.S, n))
	tup := []Term{idx, fc.freshConst("selok", SBool)}
	for _, st := range x.States {
		if st.Dir == types.RecvOnly {
			ct := st.Chan.Type().Underlying().(*types.Chan)
			v := fc.freshConst("selrecv", u.SortOf(ct.Elem()))
			tup = append(tup, v)
		}
	}
	fc.abstractedNote("select chooses any of its cases; received values are arbitrary")
	fc.vals[x] = Val{Tuple: tup}
	// goroutines synchronised with this select (sync clause): apply their contract now
	if len(fc.syncSites) > 0 {
		ordSel := fc.selectOrdinal(x)
		var rest []*ssa.Go
		for _, g := range fc.syncSites {
			if fc.syncedGo(g) != ordSel {
				rest = append(rest, g)
				continue
			}
			callee := fc.resolveCallee(g)
			ct := fc.eng.ContractFor(callee)
			if callee == nil || ct == nil {
				fc.fail("sync clause: the goroutine body needs a contract")
			}
			s := fc.buildSite(g)
			fc.applyContract(s, ct, callee)
		}
		fc.syncSites = rest
	}
	// "at select#k: set g = e" with $index bound to the chosen case
	if fc.contract != nil {
		ord := 0
		var sels []*ssa.Select
		for _, b := range fc.fn.Blocks {
			for _, in := range b.Instrs {
				if sl, ok := in.(*ssa.Select); ok {
					sels = append(sels, sl)
				}
			}
		}
		sort.Slice(sels, func(i, j int) bool { return sels[i].Pos() < sels[j].Pos() })
		for i, sl := range sels {
			if sl == x {
				ord = i + 1
			}
		}
		for _, aa := range fc.contract.Asserts {
			if aa.Anchor != "select" || aa.Ord != ord {
				continue
			}
			aa.Matched++
			sc := fc.funcScope(fc.env, fc.entryEnv, nil)
			sc.pos = x.Pos()
			sc.mode = "site"
			sc.extra = map[string]specVal{"$index": {t: idx, ty: tInt}}
			if aa.Set != nil {
				t, _ := sc.tr(aa.Set.E)
				if _, ok := fc.ghostTypes[aa.Set.Name]; !ok {
					fc.fail("set of undeclared ghost %s", aa.Set.Name)
				}
				fc.assign("g_"+aa.Set.Name, t)
			} else {
				fc.assert("assert", fmt.Sprintf("%s:select#%d.assert#%d", fc.name, ord, aa.Cl.N), sc.trBool(aa.Cl.E), aa.Cl.Src, x.Pos(), false)
			}
		}
	}
}

// loopCaptureCheck: a goroutine started inside a loop must not capture a
// variable that lives across iterations and is reassigned by the loop (with
// per-loop loop variables - every Go version this module declares - all the
// goroutines would see the value of a later iteration).  Structural, automatic.
func (fc *FnCtx) loopCaptureCheck(x *ssa.Go) {
	if fc.contract == nil {
		return
	}
	mc, ok := x.Call.Value.(*ssa.MakeClosure)
	if !ok {
		return
	}
	for _, li := range fc.loopList {
		if !li.Blocks[x.Block()] {
			continue
		}
		for _, b := range mc.Bindings {
			al, ok := b.(*ssa.Alloc)
			if !ok || li.Blocks[al.Block()] || al.Comment == "" {
				continue
			}
			assigned := false
			for blk := range li.Blocks {
				for _, in := range blk.Instrs {
					if st, ok := in.(*ssa.Store); ok && st.Addr == al {
						assigned = true
					}
				}
			}
			name := fmt.Sprintf("%s:go.loopcapture(%s)#%d", fc.name, al.Comment, fc.nextCount("lc:"+al.Comment))
			if assigned {
				fc.assertUnmatched(name, "goroutine started in a loop captures variable "+al.Comment+", which is shared by all iterations and reassigned by the loop")
			}
		}
	}
}

func (fc *FnCtx) doGo(x *ssa.Go) {
	fc.loopCaptureCheck(x)
	// call-site requires clauses apply to the arguments evaluated at the go statement
	if specs := fc.siteSpecs(x); len(specs) > 0 {
		s := fc.buildSite(x)
		for _, cs := range specs {
			cs.Matched++
			sc := fc.siteScope(s, fc.env, fc.entryEnv)
			for _, r := range cs.Requires {
				name := fmt.Sprintf("%s:go(%s)#%d.requires#%d", fc.name, cs.Callee, fc.callOrdOf[x][cs.Callee], r.N)
				fc.assert("call-requires", name, sc.trBool(r.E), r.Src, s.pos, false)
			}
			for _, st := range cs.Sets {
				t, _ := sc.tr(st.E)
				if _, ok := fc.ghostTypes[st.Name]; !ok {
					fc.fail("set of undeclared ghost %s", st.Name)
				}
				fc.assign("g_"+st.Name, t)
			}
		}
	}
	if fc.syncedGo(x) > 0 {
		fc.syncSites = append(fc.syncSites, x)
		fc.abstractedNote("sync clause: a goroutine is treated as a call completed at the select that waits for it (the other select branches return without using its results)")
		return
	}
	fc.volatile = fc.volatileSet
	fc.abstractedNote("go statement: the spawned body is not part of this function's proof; memory it may write is treated as volatile")
}

// ix: absolute index of element i of a slice with offset off.  It is an
// uninterpreted function with a defining axiom so that quantifier patterns
// over slice elements are not destroyed by arithmetic normalisation.
func (fc *FnCtx) ix(off, i Term) Term {
	fc.eng.ixDecl()
	return T(SInt, "(ix %s %s)", off.S, i.S)
}

func (e *Engine) ixDecl() {
	e.GDecl("ix", "(declare-fun ix (Int Int) Int)")
	e.GAxiom("ix_def", "(assert (forall ((o Int) (i Int)) (! (= (ix o i) (+ o i)) :pattern ((ix o i)))))", "(ix ")
}

func (fc *FnCtx) selectOrdinal(x *ssa.Select) int {
	var sels []*ssa.Select
	for _, b := range fc.fn.Blocks {
		for _, in := range b.Instrs {
			if sl, ok := in.(*ssa.Select); ok {
				sels = append(sels, sl)
			}
		}
	}
	sort.Slice(sels, func(i, j int) bool { return sels[i].Pos() < sels[j].Pos() })
	for i, sl := range sels {
		if sl == x {
			return i + 1
		}
	}
	return 0
}

// bitandConst: x & m for a non-negative constant m, as exact integer arithmetic.
func bitandConst(x Term, m int64) Term {
	if m == 0 {
		return IntLit(0)
	}
	// low-bits mask 2^k-1: x mod 2^k
	if m&(m+1) == 0 {
		k := int64(0)
		for (int64(1) << k) <= m {
			k++
		}
		return T(SInt, "(mod %s %s)", x.S, pow2(k))
	}
	var parts []string
	for k := int64(0); k < 63; k++ {
		if m&(int64(1)<<k) != 0 {
			parts = append(parts, fmt.Sprintf("(* %s (mod (div %s %s) 2))", pow2(k), x.S, pow2(k)))
		}
	}
	if len(parts) == 1 {
		return Term{parts[0], SInt}
	}
	return Term{"(+ " + strings.Join(parts, " ") + ")", SInt}
}

func intLiteral(t Term) (int64, bool) {
	var v int64
	if _, err := fmt.Sscanf(t.S, "%d", &v); err == nil && fmt.Sprint(v) == t.S {
		return v, true
	}
	return 0, false
}
