package main

// Bounded stand-ins: for a function the contract engine cannot reach, a
// bounded check of the REAL function (an in-package Go test injected with
// `go test -overlay`) may stand in.  It is labelled bounded in the evidence,
// states its bound, and is never counted among the proved obligations.  A
// failure is a violation with a concrete failing input (the operation
// sequence printed by the test).

import (
	"encoding/json"
	"fmt"
	"os"
	"os/exec"
	"path/filepath"
	"regexp"
	"strings"
	"time"
)

type standinSpec struct {
	Property   string `json:"property"`
	Name       string `json:"name"`
	PkgDir     string `json:"pkgdir"`
	TestFile   string `json:"test_file"` // relative to /verif
	Run        string `json:"run"`
	BoundQuick string `json:"bound_quick"`
	BoundThor  string `json:"bound_thorough"`
	Covers     string `json:"covers"`
	BoundText  string `json:"bound_text"`
}

type standinResult struct {
	Spec      standinSpec
	Passed    bool
	Summary   string   // the GOVC-BOUNDED line
	Failures  []string // GOVC-BOUNDED-FAIL lines
	Output    string
	Seconds   float64
	Bound     string
	MachineKO string // non-empty if the harness itself could not run
}

var reBoundedLine = regexp.MustCompile(`GOVC-BOUNDED[ -][^\n]*`)

func (e *Engine) runStandins(prop, tier, scratch string) []*standinResult {
	data, err := os.ReadFile(filepath.Join(e.VerifDir, "standins", "standins.json"))
	if err != nil {
		return nil
	}
	var specs []standinSpec
	if err := json.Unmarshal(data, &specs); err != nil {
		return []*standinResult{{MachineKO: "standins.json: " + err.Error()}}
	}
	var out []*standinResult
	for _, sp := range specs {
		if sp.Property != prop {
			continue
		}
		r := &standinResult{Spec: sp}
		r.Bound = sp.BoundQuick
		if tier == "thorough" && sp.BoundThor != "" {
			r.Bound = sp.BoundThor
		}
		target := filepath.Join(e.RepoDir, sp.PkgDir, "zz_govc_bounded_"+sp.Name+"_test.go")
		ov := map[string]map[string]string{"Replace": {target: filepath.Join(e.VerifDir, sp.TestFile)}}
		ovData, _ := json.Marshal(ov)
		ovFile := filepath.Join(scratch, "standin_"+sp.Name+"_ov.json")
		os.WriteFile(ovFile, ovData, 0644)
		cmd := exec.Command("go", "test", "-overlay", ovFile, "-vet=off", "-count=1", "-timeout", "1500s", "-run", "^"+sp.Run+"$", "-v", "./"+sp.PkgDir)
		cmd.Dir = e.RepoDir
		cmd.Env = append(os.Environ(), "GOFLAGS=-mod=mod", "GOPROXY=off", "GOSUMDB=off", "GOTOOLCHAIN=local", "GOVC_BOUND="+r.Bound)
		start := time.Now()
		b, err := cmd.CombinedOutput()
		r.Seconds = time.Since(start).Seconds()
		r.Output = string(b)
		if len(r.Output) > 20000 {
			r.Output = r.Output[:20000] + "\n...truncated"
		}
		for _, l := range reBoundedLine.FindAllString(string(b), -1) {
			if strings.HasPrefix(l, "GOVC-BOUNDED-FAIL") {
				r.Failures = append(r.Failures, l)
			} else {
				r.Summary = l
			}
		}
		switch {
		case len(r.Failures) > 0:
			r.Passed = false
		case err == nil && r.Summary != "":
			r.Passed = true
		case strings.Contains(string(b), "panic:") || strings.Contains(string(b), "--- FAIL"):
			// the real code failed under the harness without a sequence line
			r.Failures = append(r.Failures, "GOVC-BOUNDED-FAIL (no sequence reported) "+firstLine(string(b), "panic:", "--- FAIL"))
		default:
			r.MachineKO = fmt.Sprintf("bounded stand-in %s could not run: %v", sp.Name, err)
		}
		out = append(out, r)
	}
	return out
}

func firstLine(s string, markers ...string) string {
	for _, l := range strings.Split(s, "\n") {
		for _, m := range markers {
			if strings.Contains(l, m) {
				return strings.TrimSpace(l)
			}
		}
	}
	return ""
}
