package main

// Replay: for a failed obligation of a first-order function, generate an
// in-package Go test that evaluates the function's contract (compiled to Go)
// on the REAL function over a bounded family of inputs, and run it with
// `go test -overlay`.  A failing input found this way is a genuine
// counterexample (it was executed against the real code).  The bound is only
// used to find inputs, never to claim a proof.

import (
	"context"
	"encoding/json"
	"fmt"
	"go/types"
	"os"
	"os/exec"
	"path/filepath"
	"regexp"
	"sort"
	"strings"
	"time"

	"golang.org/x/tools/go/ssa"
)

type ReplayResult struct {
	Tried    bool
	Found    bool
	Input    string
	Clause   string
	TestFile string
	Output   string
	Reason   string
}

// replayable reports whether every parameter can be enumerated.
func replayKind(t types.Type) string {
	switch tt := t.Underlying().(type) {
	case *types.Basic:
		switch {
		case tt.Info()&types.IsInteger != 0:
			return "int"
		case tt.Info()&types.IsBoolean != 0:
			return "bool"
		case tt.Info()&types.IsString != 0:
			return "string"
		}
	case *types.Slice:
		if b, ok := tt.Elem().Underlying().(*types.Basic); ok {
			switch {
			case b.Kind() == types.Uint8:
				return "bytes"
			case b.Info()&types.IsInteger != 0:
				return "ints"
			case b.Info()&types.IsString != 0:
				return "strings"
			}
		}
	}
	return ""
}

type goGen struct {
	fc       *FnCtx
	params   map[string]bool
	results  map[string]string // spec name -> go variable
	inOld    bool
	oldNames map[string]bool
	bad      string
	qdepth   int
}

func (g *goGen) fail(why string) string {
	if g.bad == "" {
		g.bad = why
	}
	return "false"
}

func (g *goGen) expr(e Expr) string {
	switch x := e.(type) {
	case *EInt:
		return x.Val
	case *EFloat:
		return x.Val
	case *EStr:
		return fmt.Sprintf("%q", x.Val)
	case *EBool:
		return fmt.Sprint(x.Val)
	case *ENil:
		return "nil"
	case *EIdent:
		if v, ok := g.results[x.Name]; ok {
			return v
		}
		if g.params[x.Name] {
			if g.inOld && g.oldNames[x.Name] {
				return "old_" + x.Name
			}
			return x.Name
		}
		if strings.HasPrefix(x.Name, "$") {
			return g.fail("special name " + x.Name)
		}
		return x.Name // package-level identifier or quantified variable
	case *EOld:
		save := g.inOld
		g.inOld = true
		s := g.expr(x.X)
		g.inOld = save
		return s
	case *ECond:
		return fmt.Sprintf("func() interface{} { if %s { return %s }; return %s }()", g.expr(x.C), g.expr(x.A), g.expr(x.B))
	case *EUnary:
		return "(" + x.Op + g.expr(x.X) + ")"
	case *EBinary:
		a, b := g.expr(x.X), g.expr(x.Y)
		switch x.Op {
		case "==>":
			return "(!(" + a + ") || (" + b + "))"
		case "<==>":
			return "((" + a + ") == (" + b + "))"
		}
		return "(" + a + " " + x.Op + " " + b + ")"
	case *ESel:
		return g.expr(x.X) + "." + x.Name
	case *EIndex:
		return g.expr(x.X) + "[" + g.expr(x.I) + "]"
	case *ESlice:
		lo, hi := "", ""
		if x.Lo != nil {
			lo = g.expr(x.Lo)
		}
		if x.Hi != nil {
			hi = g.expr(x.Hi)
		}
		return g.expr(x.X) + "[" + lo + ":" + hi + "]"
	case *EQuant:
		var b strings.Builder
		b.WriteString("func() bool {")
		for _, v := range x.Vars {
			if v.Type != "int" && v.Type != "int64" && v.Type != "uint64" {
				return g.fail("quantifier over " + v.Type)
			}
			fmt.Fprintf(&b, " for %s := %s(0); %s <= %s(govcQMax); %s++ {", v.Name, v.Type, v.Name, v.Type, v.Name)
		}
		body := g.expr(x.Body)
		if x.Forall {
			fmt.Fprintf(&b, " if !(%s) { return false }", body)
		} else {
			fmt.Fprintf(&b, " if %s { return true }", body)
		}
		for range x.Vars {
			b.WriteString(" }")
		}
		if x.Forall {
			b.WriteString("; return true }()")
		} else {
			b.WriteString("; return false }()")
		}
		return b.String()
	case *ECall:
		name := ""
		switch f := x.Fun.(type) {
		case *EIdent:
			name = f.Name
		case *ESel:
			if id, ok := f.X.(*EIdent); ok {
				name = id.Name + "." + f.Name
			}
		}
		var as []string
		for _, a := range x.Args {
			as = append(as, g.expr(a))
		}
		switch name {
		case "len", "cap", "min", "max", "int", "int64", "uint64", "uint32", "int32", "uint", "byte", "string", "float64",
			"strings.HasPrefix", "strings.HasSuffix", "strings.Contains", "strings.Index":
			return name + "(" + strings.Join(as, ", ") + ")"
		case "matches":
			lit, ok := x.Args[1].(*EStr)
			if !ok {
				return g.fail("matches with non-literal pattern")
			}
			pat := lit.Val
			if !strings.HasPrefix(pat, "^") {
				pat = "^(?:" + pat + ")$"
			}
			return fmt.Sprintf("regexp.MustCompile(%q).MatchString(%s)", pat, as[0])
		case "md5hex", "hmacsha1hex", "itoa", "splitcount", "splitpart", "fmt08x":
			return "govc_" + name + "(" + strings.Join(as, ", ") + ")"
		}
		// spec macro / spec function with a body: expand
		if g.fc.tpkg != nil {
			if sf := g.fc.eng.SpecFuncs[g.fc.tpkg.Path()+"."+name]; sf != nil && sf.Body != nil && len(sf.Params) == len(x.Args) {
				sub := map[string]Expr{}
				for i, q := range sf.Params {
					sub[q.Name] = x.Args[i]
				}
				return "(" + g.expr(substExpr(sf.Body, sub)) + ")"
			}
		}
		// a Go function of the package under test: call the real thing
		if g.fc.tpkg != nil && !strings.Contains(name, ".") {
			if _, ok := g.fc.tpkg.Scope().Lookup(name).(*types.Func); ok {
				return name + "(" + strings.Join(as, ", ") + ")"
			}
		}
		return g.fail("function " + name + " has no executable meaning")
	}
	return g.fail(fmt.Sprintf("expression %T", e))
}

// literals collects integer and string literals of an expression (candidate inputs).
func exprLiterals(e Expr, ints map[string]bool, strs map[string]bool) {
	switch x := e.(type) {
	case *EInt:
		ints[x.Val] = true
	case *EStr:
		strs[x.Val] = true
	case *EUnary:
		exprLiterals(x.X, ints, strs)
	case *EBinary:
		exprLiterals(x.X, ints, strs)
		exprLiterals(x.Y, ints, strs)
	case *ESel:
		exprLiterals(x.X, ints, strs)
	case *EIndex:
		exprLiterals(x.X, ints, strs)
		exprLiterals(x.I, ints, strs)
	case *ESlice:
		exprLiterals(x.X, ints, strs)
		if x.Lo != nil {
			exprLiterals(x.Lo, ints, strs)
		}
		if x.Hi != nil {
			exprLiterals(x.Hi, ints, strs)
		}
	case *ECall:
		for _, a := range x.Args {
			exprLiterals(a, ints, strs)
		}
	case *EOld:
		exprLiterals(x.X, ints, strs)
	case *ECond:
		exprLiterals(x.C, ints, strs)
		exprLiterals(x.A, ints, strs)
		exprLiterals(x.B, ints, strs)
	case *EQuant:
		exprLiterals(x.Body, ints, strs)
	}
}

var reNum = regexp.MustCompile(`^[0-9]+$`)

// TryReplay searches for an input on which the real function violates its contract.
func (e *Engine) TryReplay(fc *FnCtx, ob *Obligation) *ReplayResult {
	res := &ReplayResult{}
	fn := fc.fn
	c := fc.contract
	if fn == nil || c == nil || fn.Parent() != nil || fn.Signature.Recv() != nil {
		res.Reason = "not a top-level function under contract"
		return res
	}
	ghostNames := map[string]bool{}
	for _, gv := range c.Ghosts {
		ghostNames[gv.Name] = true
	}
	pkg := e.Pkgs[fc.tpkg.Path()]
	if pkg == nil {
		res.Reason = "package not loaded"
		return res
	}
	g := &goGen{fc: fc, params: map[string]bool{}, results: map[string]string{}, oldNames: map[string]bool{}}
	type par struct{ name, kind, typ string }
	var pars []par
	qual := func(p *types.Package) string {
		if p == fc.tpkg {
			return ""
		}
		return p.Name()
	}
	for _, p := range fn.Params {
		k := replayKind(p.Type())
		if k == "" {
			res.Reason = "parameter " + p.Name() + " of type " + p.Type().String() + " is not enumerable"
			return res
		}
		pars = append(pars, par{p.Name(), k, types.TypeString(p.Type(), qual)})
		g.params[p.Name()] = true
		if k == "bytes" || k == "ints" || k == "strings" {
			g.oldNames[p.Name()] = true
		}
	}
	sig := fn.Signature
	var rnames []string
	for i := 0; i < sig.Results().Len(); i++ {
		v := fmt.Sprintf("govcR%d", i)
		rnames = append(rnames, v)
		g.results[fmt.Sprintf("result%d", i)] = v
		if i == 0 {
			g.results["result"] = v
		}
		if n := sig.Results().At(i).Name(); n != "" && n != "_" {
			g.results[n] = v
		}
	}
	// compile clauses
	var reqs []string
	for _, r := range c.Requires {
		g.bad = ""
		s := g.expr(r.E)
		if g.bad != "" {
			res.Reason = "precondition not executable: " + g.bad
			return res
		}
		reqs = append(reqs, s)
	}
	type ens struct{ src, code string }
	var enss []ens
	var skipped []string
	for _, r := range append(append([]*Clause{}, c.Ensures...), c.ReplayChecks...) {
		if len(ghostNames) > 0 && mentions(r.E, ghostNames) {
			skipped = append(skipped, r.Src+" (ghost state)")
			continue
		}
		g.bad = ""
		s := g.expr(r.E)
		if g.bad != "" {
			skipped = append(skipped, r.Src+" ("+g.bad+")")
			continue
		}
		enss = append(enss, ens{r.Src, s})
	}
	// candidate values
	ints := map[string]bool{"0": true, "1": true, "2": true, "3": true, "5": true, "10": true}
	strs := map[string]bool{"": true, "a": true}
	for _, r := range append(append([]*Clause{}, c.Requires...), c.Ensures...) {
		exprLiterals(r.E, ints, strs)
	}
	for _, h := range c.ReplayHints {
		strs[h] = true
	}
	// short literals combined with each other and with a plain letter: inputs
	// "just next to" the boundary values the contract names (".a", "a/", "./.")
	nStr := 0
	for _, p := range pars {
		if p.kind == "string" || p.kind == "bytes" {
			nStr++
		}
	}
	if nStr <= 2 {
		var base []string
		for k := range strs {
			if len(k) > 0 && len(k) <= 4 {
				base = append(base, k)
			}
		}
		sort.Strings(base)
		if len(base) <= 6 {
			for _, a := range base {
				for _, b := range base {
					strs[a+b] = true
				}
			}
		}
	}
	var intList []string
	for k := range ints {
		if reNum.MatchString(k) && len(k) < 19 {
			intList = append(intList, k)
			intList = append(intList, k+"+1")
			if k != "0" {
				intList = append(intList, k+"-1")
			}
		}
	}
	sort.Strings(intList)
	var strList []string
	for k := range strs {
		strList = append(strList, fmt.Sprintf("%q", k))
	}
	sort.Strings(strList)

	var b strings.Builder
	fmt.Fprintf(&b, "package %s\n\n", fc.tpkg.Name())
	b.WriteString("import (\n\t\"crypto/hmac\"\n\t\"crypto/md5\"\n\t\"crypto/sha1\"\n\t\"fmt\"\n\t\"regexp\"\n\t\"strconv\"\n\t\"strings\"\n\t\"testing\"\n\t\"time\"\n)\n\n")
	b.WriteString("var _ = regexp.MustCompile\nvar _ = strings.Split\nvar _ = strconv.Itoa\nvar _ = hmac.New\nvar _ = sha1.New\nvar _ = md5.Sum\n\n")
	b.WriteString("const govcQMax = 6\n\n")
	b.WriteString("func govc_md5hex(s string) string { return fmt.Sprintf(\"%x\", md5.Sum([]byte(s))) }\n")
	b.WriteString("func govc_hmacsha1hex(k, m string) string { h := hmac.New(sha1.New, []byte(k)); h.Write([]byte(m)); return fmt.Sprintf(\"%x\", h.Sum(nil)) }\n")
	b.WriteString("func govc_itoa(n int64) string { return strconv.FormatInt(n, 10) }\n")
	b.WriteString("func govc_fmt08x(n int64) string { return fmt.Sprintf(\"%08x\", n) }\n")
	b.WriteString("func govc_splitcount(s, sep string) int { return len(strings.Split(s, sep)) }\n")
	b.WriteString("func govc_splitpart(s, sep string, i int) string { p := strings.Split(s, sep); if i < 0 || i >= len(p) { return \"\" }; return p[i] }\n\n")
	fmt.Fprintf(&b, "var govcInts = []int64{%s}\n", strings.Join(intList, ", "))
	b.WriteString("var govcBig = []uint64{18446744073709551615, 18446744073709551614, 9223372036854775807}\n")
	fmt.Fprintf(&b, "var govcStrs = []string{%s}\n\n", strings.Join(strList, ", "))
	b.WriteString("func TestGovcReplay(t *testing.T) {\n\tdeadline := time.Now().Add(25 * time.Second)\n\tn := 0\n")
	// nested enumeration
	indent := "\t"
	closeN := 0
	for _, p := range pars {
		switch p.kind {
		case "int":
			fmt.Fprintf(&b, "%sfor _, govcI_%s := range govcIntsFor(%q) {\n%s\t%s := %s(govcI_%s)\n", indent, p.name, p.typ, indent, p.name, p.typ, p.name)
			closeN++
		case "bool":
			fmt.Fprintf(&b, "%sfor _, %s := range []bool{false, true} {\n", indent, p.name)
			closeN++
		case "string":
			fmt.Fprintf(&b, "%sfor _, govcS_%s := range govcStrs {\n%s\t%s := %s(govcS_%s)\n", indent, p.name, indent, p.name, p.typ, p.name)
			closeN++
		case "bytes":
			fmt.Fprintf(&b, "%sfor _, govcS_%s := range govcStrs {\n%s\t%s := %s([]byte(govcS_%s))\n%s\told_%s := %s([]byte(govcS_%s))\n", indent, p.name, indent, p.name, p.typ, p.name, indent, p.name, p.typ, p.name)
			closeN++
		case "ints":
			et := strings.TrimPrefix(p.typ, "[]")
			fmt.Fprintf(&b, "%sfor _, govcV_%s := range govcSeqs() {\n%s\t%s := make(%s, len(govcV_%s))\n%s\tfor k, v := range govcV_%s { %s[k] = %s(v) }\n%s\told_%s := append(%s(nil), %s...)\n",
				indent, p.name, indent, p.name, p.typ, p.name, indent, p.name, p.name, et, indent, p.name, p.typ, p.name)
			closeN++
		case "strings":
			fmt.Fprintf(&b, "%sfor _, govcV_%s := range [][]string{{}, {\"a\"}, {\"a\", \"b\"}} {\n%s\t%s := %s(govcV_%s)\n%s\told_%s := append(%s(nil), %s...)\n", indent, p.name, indent, p.name, p.typ, p.name, indent, p.name, p.typ, p.name)
			closeN++
		}
		indent += "\t"
	}
	for _, p := range pars {
		fmt.Fprintf(&b, "%s_ = %s\n", indent, p.name)
		if g.oldNames[p.name] {
			fmt.Fprintf(&b, "%s_ = old_%s\n", indent, p.name)
		}
	}
	fmt.Fprintf(&b, "%sn++\n%sif n%%1000 == 0 && time.Now().After(deadline) {\n%s\tt.Logf(\"GOVC-REPLAY-EXHAUSTED after %%d inputs\", n)\n%s\treturn\n%s}\n", indent, indent, indent, indent, indent)
	var pfmt, pargs []string
	for _, p := range pars {
		pfmt = append(pfmt, p.name+"=%#v")
		if g.oldNames[p.name] {
			pargs = append(pargs, "old_"+p.name)
		} else {
			pargs = append(pargs, p.name)
		}
	}
	inputFmt := strings.Join(pfmt, " ")
	inputArgs := strings.Join(pargs, ", ")
	if len(pars) == 0 {
		inputArgs = ""
	}
	fmt.Fprintf(&b, "%sfunc() {\n", indent)
	in2 := indent + "\t"
	fmt.Fprintf(&b, "%sstage := \"precondition\"\n", in2)
	fmt.Fprintf(&b, "%sdefer func() {\n%s\tif r := recover(); r != nil && stage == \"call\" {\n%s\t\tt.Fatalf(\"GOVC-REPLAY-FAIL clause=%%q input: %s\", fmt.Sprintf(\"no panic (got: %%v)\", r)%s)\n%s\t}\n%s}()\n",
		in2, in2, in2, inputFmt, prefixComma(inputArgs), in2, in2)
	for _, r := range reqs {
		fmt.Fprintf(&b, "%sif !(%s) {\n%s\treturn\n%s}\n", in2, r, in2, in2)
	}
	fmt.Fprintf(&b, "%sstage = \"call\"\n", in2)
	var callArgs []string
	for _, p := range pars {
		callArgs = append(callArgs, p.name)
	}
	if len(rnames) > 0 {
		fmt.Fprintf(&b, "%s%s := %s(%s)\n", in2, strings.Join(rnames, ", "), fn.Name(), strings.Join(callArgs, ", "))
		for _, r := range rnames {
			fmt.Fprintf(&b, "%s_ = %s\n", in2, r)
		}
	} else {
		fmt.Fprintf(&b, "%s%s(%s)\n", in2, fn.Name(), strings.Join(callArgs, ", "))
	}
	fmt.Fprintf(&b, "%sstage = \"postcondition\"\n", in2)
	for _, en := range enss {
		fmt.Fprintf(&b, "%sif !(%s) {\n%s\tt.Fatalf(\"GOVC-REPLAY-FAIL clause=%%q input: %s\", %q%s)\n%s}\n", in2, en.code, in2, inputFmt, en.src, prefixComma(inputArgs), in2)
	}
	fmt.Fprintf(&b, "%s}()\n", indent)
	for i := 0; i < closeN; i++ {
		indent = indent[:len(indent)-1]
		fmt.Fprintf(&b, "%s}\n", indent)
	}
	b.WriteString("\tt.Logf(\"GOVC-REPLAY-EXHAUSTED after %d inputs\", n)\n}\n\n")
	b.WriteString(`func govcIntsFor(typ string) []int64 {
	out := append([]int64(nil), govcInts...)
	return out
}

// all sequences of length <= 4 over a small value set
func govcSeqs() [][]uint64 {
	vals := []uint64{0, 5, 10}
	out := [][]uint64{{}}
	frontier := [][]uint64{{}}
	for l := 0; l < 4; l++ {
		var next [][]uint64
		for _, s := range frontier {
			for _, v := range vals {
				ns := append(append([]uint64(nil), s...), v)
				next = append(next, ns)
			}
		}
		out = append(out, next...)
		frontier = next
	}
	return out
}
`)
	res.Tried = true
	dir := filepath.Join(e.VerifDir, "replays")
	os.MkdirAll(dir, 0755)
	testFile := filepath.Join(dir, mangle(ob.Name)+"_replay_test.go")
	if err := os.WriteFile(testFile, []byte(b.String()), 0644); err != nil {
		res.Reason = err.Error()
		return res
	}
	res.TestFile = testFile
	// overlay + run
	pkgDir := ""
	if len(pkg.GoFiles) > 0 {
		pkgDir = filepath.Dir(pkg.GoFiles[0])
	}
	if pkgDir == "" {
		res.Reason = "package directory unknown"
		return res
	}
	ov := map[string]map[string]string{"Replace": {filepath.Join(pkgDir, "zz_govc_replay_test.go"): testFile}}
	standin := filepath.Join(e.VerifDir, "engine", "standins", "login_pam.go")
	if _, err := os.Stat(standin); err == nil {
		ov["Replace"][filepath.Join(e.RepoDir, "lib/controller/localdb/login_pam.go")] = standin
	}
	ovData, _ := json.Marshal(ov)
	ovFile := filepath.Join(e.ScratchDir, mangle(ob.Name)+"_ov.json")
	os.WriteFile(ovFile, ovData, 0644)
	rel, _ := filepath.Rel(e.RepoDir, pkgDir)
	ctx, cancel := context.WithTimeout(context.Background(), 120*time.Second)
	defer cancel()
	cmd := exec.CommandContext(ctx, "go", "test", "-overlay", ovFile, "-vet=off", "-count=1", "-timeout", "60s", "-v", "-run", "^TestGovcReplay$", "./"+rel)
	cmd.Dir = e.RepoDir
	cmd.Env = append(os.Environ(), "GOFLAGS=-mod=mod", "GOPROXY=off", "GOSUMDB=off", "GOTOOLCHAIN=local")
	out, _ := cmd.CombinedOutput()
	text := string(out)
	if len(text) > 6000 {
		text = text[:6000]
	}
	res.Output = text
	if i := strings.Index(text, "GOVC-REPLAY-FAIL"); i >= 0 {
		line := text[i:]
		if j := strings.Index(line, "\n"); j >= 0 {
			line = line[:j]
		}
		res.Found = true
		res.Input = line
		if k := strings.Index(line, "input: "); k >= 0 {
			res.Input = line[k+7:]
			res.Clause = strings.TrimSpace(strings.TrimPrefix(line[:k], "GOVC-REPLAY-FAIL"))
		}
	} else if strings.Contains(text, "GOVC-REPLAY-EXHAUSTED") {
		res.Reason = "bounded search over small inputs found no violating input"
	} else {
		res.Reason = "replay test did not run (see output)"
	}
	if len(skipped) > 0 {
		res.Reason += "; clauses not executable: " + strings.Join(skipped, " | ")
	}
	_ = ssa.NaiveForm
	return res
}

func prefixComma(s string) string {
	if s == "" {
		return ""
	}
	return ", " + s
}

// runReplayTest re-runs a recorded replay test against the current tree.
func runReplayTest(e *Engine, testFile string) (string, error) {
	data, err := os.ReadFile(testFile)
	if err != nil {
		return "", err
	}
	m := regexp.MustCompile(`(?m)^package (\w+)`).FindSubmatch(data)
	if m == nil {
		return "", fmt.Errorf("no package clause in %s", testFile)
	}
	// find the package directory by name among the contract files' packages
	if err := e.LoadContracts(); err != nil {
		return "", err
	}
	var dir string
	for _, cf := range e.Files {
		src, _ := os.ReadFile(cf.Path)
		if pm := regexp.MustCompile(`(?m)^package (\w+)`).FindSubmatch(src); pm != nil && string(pm[1]) == string(m[1]) {
			base := filepath.Base(testFile)
			for _, c := range cf.Funcs {
				if strings.Contains(base, mangle(string(m[1])+"."+c.Name)) || strings.Contains(base, mangle(c.Name)) {
					dir = cf.PkgDir
				}
			}
		}
	}
	if dir == "" {
		return "", fmt.Errorf("cannot determine the package directory for %s", testFile)
	}
	scratch, _ := os.MkdirTemp("", "govc-replay")
	defer os.RemoveAll(scratch)
	ov := map[string]map[string]string{"Replace": {filepath.Join(e.RepoDir, dir, "zz_govc_replay_test.go"): testFile}}
	standin := filepath.Join(e.VerifDir, "engine", "standins", "login_pam.go")
	if _, err := os.Stat(standin); err == nil {
		ov["Replace"][filepath.Join(e.RepoDir, "lib/controller/localdb/login_pam.go")] = standin
	}
	ovData, _ := json.Marshal(ov)
	ovFile := filepath.Join(scratch, "ov.json")
	os.WriteFile(ovFile, ovData, 0644)
	cmd := exec.Command("go", "test", "-overlay", ovFile, "-vet=off", "-count=1", "-timeout", "60s", "-v", "-run", "^TestGovcReplay$", "./"+dir)
	cmd.Dir = e.RepoDir
	cmd.Env = append(os.Environ(), "GOFLAGS=-mod=mod", "GOPROXY=off", "GOSUMDB=off", "GOTOOLCHAIN=local")
	out, err := cmd.CombinedOutput()
	return string(out), err
}
