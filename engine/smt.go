package main

// SMT term construction and the mapping from Go types to SMT sorts.

import (
	"fmt"
	"go/types"
	"sort"
	"strings"

	"golang.org/x/tools/go/types/typeutil"
)

type Sort string

const (
	SInt    Sort = "Int"
	SBool   Sort = "Bool"
	SString Sort = "String"
	SReal   Sort = "Real"
	SSlice  Sort = "Slice"
)

type Term struct {
	S    string
	Sort Sort
}

func T(sort Sort, format string, args ...interface{}) Term {
	return Term{S: fmt.Sprintf(format, args...), Sort: sort}
}

func IntLit(n int64) Term {
	if n < 0 {
		return Term{fmt.Sprintf("(- %d)", -n), SInt}
	}
	return Term{fmt.Sprintf("%d", n), SInt}
}

func BigLit(s string) Term {
	if strings.HasPrefix(s, "-") {
		return Term{"(- " + s[1:] + ")", SInt}
	}
	return Term{s, SInt}
}

func BoolLit(b bool) Term {
	if b {
		return Term{"true", SBool}
	}
	return Term{"false", SBool}
}

var TrueT = BoolLit(true)
var FalseT = BoolLit(false)

func StrLit(s string) Term {
	var b strings.Builder
	b.WriteByte('"')
	for i := 0; i < len(s); i++ {
		c := s[i]
		switch {
		case c == '"':
			b.WriteString(`""`)
		case c == '\\':
			b.WriteString(`\u{5c}`)
		case c < 0x20 || c >= 0x7f:
			fmt.Fprintf(&b, `\u{%x}`, c)
		default:
			b.WriteByte(c)
		}
	}
	b.WriteByte('"')
	return Term{b.String(), SString}
}

func And(ts ...Term) Term {
	var parts []string
	for _, t := range ts {
		if t.S == "true" {
			continue
		}
		if t.S == "false" {
			return FalseT
		}
		parts = append(parts, t.S)
	}
	switch len(parts) {
	case 0:
		return TrueT
	case 1:
		return Term{parts[0], SBool}
	}
	return Term{"(and " + strings.Join(parts, " ") + ")", SBool}
}

func Or(ts ...Term) Term {
	var parts []string
	for _, t := range ts {
		if t.S == "false" {
			continue
		}
		if t.S == "true" {
			return TrueT
		}
		parts = append(parts, t.S)
	}
	switch len(parts) {
	case 0:
		return FalseT
	case 1:
		return Term{parts[0], SBool}
	}
	return Term{"(or " + strings.Join(parts, " ") + ")", SBool}
}

func Not(t Term) Term {
	if t.S == "true" {
		return FalseT
	}
	if t.S == "false" {
		return TrueT
	}
	return Term{"(not " + t.S + ")", SBool}
}

func Implies(a, b Term) Term {
	if a.S == "true" {
		return b
	}
	if a.S == "false" || b.S == "true" {
		return TrueT
	}
	return Term{"(=> " + a.S + " " + b.S + ")", SBool}
}

func Eq(a, b Term) Term {
	if a.S == b.S {
		return TrueT
	}
	return Term{"(= " + a.S + " " + b.S + ")", SBool}
}

func Ite(c, a, b Term) Term {
	if c.S == "true" {
		return a
	}
	if c.S == "false" {
		return b
	}
	return Term{"(ite " + c.S + " " + a.S + " " + b.S + ")", a.Sort}
}

func App(sort Sort, fn string, args ...Term) Term {
	if len(args) == 0 {
		return Term{fn, sort}
	}
	var b strings.Builder
	b.WriteByte('(')
	b.WriteString(fn)
	for _, a := range args {
		b.WriteByte(' ')
		b.WriteString(a.S)
	}
	b.WriteByte(')')
	return Term{b.String(), sort}
}

func Select(arr Term, idx Term) Term {
	return App(arrayElem(arr.Sort), "select", arr, idx)
}

func Store(arr Term, idx Term, v Term) Term {
	return App(arr.Sort, "store", arr, idx, v)
}

func ArraySort(idx, elem Sort) Sort {
	return Sort("(Array " + string(idx) + " " + string(elem) + ")")
}

// arrayElem returns the element sort of an (Array I E) sort.
func arrayElem(s Sort) Sort {
	str := string(s)
	if !strings.HasPrefix(str, "(Array ") {
		panic("not an array sort: " + str)
	}
	body := str[len("(Array ") : len(str)-1]
	// split body into two s-expressions
	depth := 0
	for i := 0; i < len(body); i++ {
		switch body[i] {
		case '(':
			depth++
		case ')':
			depth--
		case ' ':
			if depth == 0 {
				return Sort(body[i+1:])
			}
		}
	}
	panic("bad array sort " + str)
}

func arrayIdx(s Sort) Sort {
	str := string(s)
	body := str[len("(Array ") : len(str)-1]
	depth := 0
	for i := 0; i < len(body); i++ {
		switch body[i] {
		case '(':
			depth++
		case ')':
			depth--
		case ' ':
			if depth == 0 {
				return Sort(body[:i])
			}
		}
	}
	panic("bad array sort " + str)
}

func mangle(s string) string {
	var b strings.Builder
	for _, r := range s {
		switch {
		case r >= 'a' && r <= 'z', r >= 'A' && r <= 'Z', r >= '0' && r <= '9', r == '_':
			b.WriteRune(r)
		case r == ' ':
		default:
			b.WriteByte('_')
		}
	}
	return b.String()
}

// ---------------------------------------------------------------------------
// Sort universe: struct datatypes are created lazily and shared by all
// functions verified in one run.

type StructInfo struct {
	Name   string // SMT datatype name
	T      *types.Struct
	Fields []FieldInfo
	Named  string // Go name if any
}

type FieldInfo struct {
	Name string
	Sel  string // SMT selector
	Type types.Type
	Sort Sort
}

type Universe struct {
	structs   typeutil.Map // types.Type (struct) -> *StructInfo
	structSeq []*StructInfo
	byName    map[string]*StructInfo
	tids      map[string]int // type string -> type id for interfaces
	tidTypes  []types.Type
	busy      map[string]bool
}

func NewUniverse() *Universe {
	return &Universe{byName: map[string]*StructInfo{}, tids: map[string]int{}, busy: map[string]bool{}}
}

// opaqueStruct lists library struct types that are modelled as plain Int
// values (their fields are never accessed by verified code).
func opaqueNamed(t types.Type) bool {
	n, ok := t.(*types.Named)
	if !ok || n.Obj().Pkg() == nil {
		return false
	}
	switch n.Obj().Pkg().Path() + "." + n.Obj().Name() {
	case "time.Time", "sync.Mutex", "sync.RWMutex", "sync.WaitGroup", "sync.Once", "sync.Cond",
		"regexp.Regexp", "bytes.Buffer", "strings.Builder", "sync/atomic.Value", "time.Location",
		"net/url.Userinfo", "math/big.Int", "sync.Map", "sync.Pool", "os.File", "bufio.Scanner", "bufio.Reader", "bufio.Writer":
		return true
	}
	return false
}

func (u *Universe) SortOf(t types.Type) Sort {
	if opaqueNamed(t) {
		return SInt
	}
	switch tt := t.(type) {
	case *types.Named:
		if tt.Obj().Pkg() == nil && tt.Obj().Name() == "$row" {
			return ArraySort(SInt, u.SortOf(tt.Underlying().(*types.Slice).Elem()))
		}
		if tt.Obj().Pkg() == nil && (tt.Obj().Name() == "$dom" || tt.Obj().Name() == "$val") {
			mt := tt.Underlying().(*types.Map)
			if tt.Obj().Name() == "$dom" {
				return ArraySort(u.SortOf(mt.Key()), SBool)
			}
			return ArraySort(u.SortOf(mt.Key()), u.SortOf(mt.Elem()))
		}
		if st, ok := tt.Underlying().(*types.Struct); ok {
			return Sort(u.structInfo(tt, st).Name)
		}
		return u.SortOf(tt.Underlying())
	case *types.Alias:
		return u.SortOf(types.Unalias(tt))
	case *types.Basic:
		info := tt.Info()
		switch {
		case info&types.IsBoolean != 0:
			return SBool
		case info&types.IsInteger != 0:
			return SInt
		case info&types.IsFloat != 0:
			return SReal
		case info&types.IsString != 0:
			return SString
		case tt.Kind() == types.UnsafePointer || tt.Kind() == types.UntypedNil:
			return SInt
		}
		return SInt
	case *types.Pointer, *types.Map, *types.Chan, *types.Signature, *types.Interface:
		return SInt
	case *types.Slice:
		return SSlice
	case *types.Array:
		return ArraySort(SInt, u.SortOf(tt.Elem()))
	case *types.Struct:
		return Sort(u.structInfo(tt, tt).Name)
	case *types.Tuple:
		return "Tuple"
	case *types.TypeParam:
		return SInt
	}
	return SInt
}

func (u *Universe) structInfo(key types.Type, st *types.Struct) *StructInfo {
	if v := u.structs.At(key); v != nil {
		return v.(*StructInfo)
	}
	name := ""
	goName := ""
	if n, ok := key.(*types.Named); ok {
		p := ""
		if n.Obj().Pkg() != nil {
			p = n.Obj().Pkg().Name()
		}
		goName = p + "." + n.Obj().Name()
		name = "S_" + mangle(p+"_"+n.Obj().Name())
	} else {
		name = fmt.Sprintf("S_anon%d", len(u.structSeq))
	}
	for u.byName[name] != nil {
		name += "x"
	}
	si := &StructInfo{Name: name, T: st, Named: goName}
	u.byName[name] = si
	u.structs.Set(key, si)
	// fields (may recurse into other structs; recursion by value is impossible in Go)
	for i := 0; i < st.NumFields(); i++ {
		f := st.Field(i)
		fs := u.SortOf(f.Type())
		si.Fields = append(si.Fields, FieldInfo{Name: f.Name(), Sel: fmt.Sprintf("%s_f%d_%s", name, i, mangle(f.Name())), Type: f.Type(), Sort: fs})
	}
	u.structSeq = append(u.structSeq, si) // appended after its dependencies
	return si
}

func (u *Universe) StructOf(t types.Type) *StructInfo {
	switch tt := t.(type) {
	case *types.Named:
		if st, ok := tt.Underlying().(*types.Struct); ok {
			return u.structInfo(tt, st)
		}
	case *types.Alias:
		return u.StructOf(types.Unalias(tt))
	case *types.Struct:
		return u.structInfo(tt, tt)
	}
	return nil
}

func (u *Universe) Zero(t types.Type) Term {
	s := u.SortOf(t)
	switch s {
	case SInt:
		return IntLit(0)
	case SBool:
		return FalseT
	case SString:
		return StrLit("")
	case SReal:
		return Term{"0.0", SReal}
	case SSlice:
		return Term{"(mkslice 0 0 0 0)", SSlice}
	}
	if si := u.StructOf(t); si != nil && !opaqueNamed(t) {
		args := make([]Term, len(si.Fields))
		for i, f := range si.Fields {
			args[i] = u.Zero(f.Type)
		}
		if len(args) == 0 {
			return Term{"mk_" + si.Name, s}
		}
		return App(s, "mk_"+si.Name, args...)
	}
	if k := pseudoKind(t); k == "$dom" || k == "$val" {
		// the domain / value function of an empty map
		if mt, ok := t.Underlying().(*types.Map); ok {
			z := u.Zero(mt.Elem())
			return Term{fmt.Sprintf("((as const %s) %s)", s, z.S), s}
		}
	}
	if at, ok := t.Underlying().(*types.Array); ok {
		z := u.Zero(at.Elem())
		return Term{fmt.Sprintf("((as const %s) %s)", s, z.S), s}
	}
	return Term{"0", s}
}

// TypeID gives a stable small integer for a dynamic (concrete) type held in
// an interface value.
func (u *Universe) TypeID(t types.Type) int {
	k := types.TypeString(t, nil)
	if id, ok := u.tids[k]; ok {
		return id
	}
	id := len(u.tids) + 1
	u.tids[k] = id
	u.tidTypes = append(u.tidTypes, t)
	return id
}

// Prelude returns datatype declarations for everything created so far.
func (u *Universe) Prelude() string {
	var b strings.Builder
	b.WriteString("(declare-datatypes ((Slice 0)) (((mkslice (s_arr Int) (s_off Int) (s_len Int) (s_cap Int)))))\n")
	for _, si := range u.structSeq {
		fmt.Fprintf(&b, "(declare-datatypes ((%s 0)) (((mk_%s", si.Name, si.Name)
		for _, f := range si.Fields {
			fmt.Fprintf(&b, " (%s %s)", f.Sel, f.Sort)
		}
		b.WriteString("))))\n")
	}
	return b.String()
}

func sortedKeys[V any](m map[string]V) []string {
	ks := make([]string, 0, len(m))
	for k := range m {
		ks = append(ks, k)
	}
	sort.Strings(ks)
	return ks
}

// integer ranges -------------------------------------------------------------

func intRange(t types.Type) (lo, hi string, ok bool) {
	b, isb := t.Underlying().(*types.Basic)
	if !isb || b.Info()&types.IsInteger == 0 {
		return
	}
	switch b.Kind() {
	case types.Int8:
		return "-128", "127", true
	case types.Int16:
		return "-32768", "32767", true
	case types.Int32:
		return "-2147483648", "2147483647", true
	case types.Int, types.Int64:
		return "-9223372036854775808", "9223372036854775807", true
	case types.Uint8:
		return "0", "255", true
	case types.Uint16:
		return "0", "65535", true
	case types.Uint32:
		return "0", "4294967295", true
	case types.Uint, types.Uint64, types.Uintptr:
		return "0", "18446744073709551615", true
	}
	return
}

func rangeFact(t types.Type, v Term) Term {
	lo, hi, ok := intRange(t)
	if !ok {
		return TrueT
	}
	return And(T(SBool, "(<= %s %s)", BigLit(lo).S, v.S), T(SBool, "(<= %s %s)", v.S, BigLit(hi).S))
}
