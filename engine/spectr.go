package main

// Typed translation of contract expressions to SMT terms.

import (
	"fmt"
	"os"
	"go/constant"
	"go/token"
	"go/types"
	"strconv"
	"strings"

	"golang.org/x/tools/go/ssa"
)

type specVal struct {
	t  Term
	p  *Place
	ty types.Type
}

type Scope struct {
	fc      *FnCtx
	env     *Env
	old     *Env
	results []Term
	extra   map[string]specVal
	bound   []map[string]specVal
	pos     token.Pos
	loop    *LoopInfo
	mode    string // pre post inv site callee global
	pkg     *types.Package
	bind    map[string]specVal // callee scope: parameter bindings
	callee  *ssa.Function
	inOld   bool
	// preferLate: resolve local names as visible at the end of the loop body
	// (for assertions on back edges) rather than at the loop head
	preferLate bool
}

func (fc *FnCtx) funcScope(env, old *Env, results []Term) *Scope {
	return &Scope{fc: fc, env: env, old: old, results: results, mode: "pre", pkg: fc.tpkg}
}

func (fc *FnCtx) calleeScope(ct *FuncContract, callee *ssa.Function, env, old *Env, bind map[string]specVal) *Scope {
	sc := &Scope{fc: fc, env: env, old: old, mode: "callee", bind: bind, callee: callee}
	if p := fc.eng.Pkgs[ct.PkgPath]; p != nil {
		sc.pkg = p.Types
	} else {
		sc.pkg = fc.tpkg
	}
	return sc
}

// scopePkgPath: the package whose contract file the expression comes from.
func (sc *Scope) scopePkgPath() string {
	if sc.pkg != nil {
		return sc.pkg.Path()
	}
	return fnPkgPath(sc.fc.fn)
}

func (sc *Scope) fail(format string, args ...interface{}) {
	sc.fc.fail("contract expression: "+format, args...)
}

func (sc *Scope) trBool(e Expr) Term {
	t, _ := sc.tr(e)
	if t.Sort != SBool {
		sc.fail("expected a boolean: %s", e)
	}
	return t
}

var (
	tInt    = types.Typ[types.Int]
	tBool   = types.Typ[types.Bool]
	tString = types.Typ[types.String]
	tUInt   = types.Typ[types.UntypedInt]
	tFloat  = types.Typ[types.Float64]
	tByte   = types.Typ[types.Uint8]
)

func (sc *Scope) curEnv() *Env {
	if sc.inOld {
		return sc.old
	}
	return sc.env
}

func (fc *FnCtx) lookupTypeName(name string) types.Type {
	p := ""
	if fc.tpkg != nil {
		p = fc.tpkg.Path()
	}
	return fc.lookupTypeNameIn(name, p)
}

func (fc *FnCtx) lookupTypeNameIn(name string, pkgPath string) types.Type {
	ptr := 0
	for strings.HasPrefix(name, "*") {
		ptr++
		name = name[1:]
	}
	var t types.Type
	if strings.HasPrefix(name, "$row[") && strings.HasSuffix(name, "]") {
		key := pkgPath + "|" + name
		if pt, ok := pseudoTypes[key]; ok {
			t = pt
		} else {
			et := fc.lookupTypeNameIn(name[5:len(name)-1], pkgPath)
			if et == nil {
				return nil
			}
			t = fc.rowType(et)
			pseudoTypes[key] = t
		}
	} else if strings.HasPrefix(name, "$dom[") || strings.HasPrefix(name, "$val[") || strings.HasPrefix(name, "map[") {
		key := pkgPath + "|" + name
		if pt, ok := pseudoTypes[key]; ok {
			t = pt
		} else {
			open := strings.Index(name, "[")
			depth, close := 0, -1
			for i := open; i < len(name); i++ {
				if name[i] == '[' {
					depth++
				} else if name[i] == ']' {
					depth--
					if depth == 0 {
						close = i
						break
					}
				}
			}
			if close < 0 {
				return nil
			}
			kt := fc.lookupTypeNameIn(name[open+1:close], pkgPath)
			if kt == nil {
				return nil
			}
			var vt types.Type = types.Typ[types.Bool]
			if !strings.HasPrefix(name, "$dom[") {
				vt = fc.lookupTypeNameIn(name[close+1:], pkgPath)
				if vt == nil {
					return nil
				}
			}
			mt := types.NewMap(kt, vt)
			if strings.HasPrefix(name, "map[") {
				t = mt
			} else {
				t = types.NewNamed(types.NewTypeName(0, nil, name[:4], nil), mt, nil)
			}
			pseudoTypes[key] = t
		}
	} else if strings.HasPrefix(name, "[]") {
		el := fc.lookupTypeNameIn(name[2:], pkgPath)
		if el == nil {
			return nil
		}
		t = types.NewSlice(el)
	} else if obj := types.Universe.Lookup(name); obj != nil {
		if tn, ok := obj.(*types.TypeName); ok {
			t = tn.Type()
		}
	} else {
		var pkg *types.Package
		if p := fc.eng.Pkgs[pkgPath]; p != nil {
			pkg = p.Types
		}
		if pkg == nil {
			return nil
		}
		if i := strings.Index(name, "."); i >= 0 {
			pn, tn := name[:i], name[i+1:]
			var ip *types.Package
			for _, im := range pkg.Imports() {
				if im.Name() == pn {
					ip = im
				}
			}
			if ip == nil {
				// search all loaded packages by name
				for _, lp := range fc.eng.Pkgs {
					if lp.Types != nil && lp.Types.Name() == pn {
						ip = lp.Types
						break
					}
				}
			}
			if ip == nil {
				return nil
			}
			if o, ok := ip.Scope().Lookup(tn).(*types.TypeName); ok {
				t = o.Type()
			}
		} else if o, ok := pkg.Scope().Lookup(name).(*types.TypeName); ok {
			t = o.Type()
		}
	}
	if t == nil {
		return nil
	}
	for i := 0; i < ptr; i++ {
		t = types.NewPointer(t)
	}
	return t
}

var pseudoTypes = map[string]types.Type{}

func (fc *FnCtx) rowType(elem types.Type) types.Type {
	key := "|$row|" + types.TypeString(elem, nil)
	if t, ok := pseudoTypes[key]; ok {
		return t
	}
	t := types.NewNamed(types.NewTypeName(0, nil, "$row", nil), types.NewSlice(elem), nil)
	pseudoTypes[key] = t
	return t
}

func pseudoKind(t types.Type) string {
	if n, ok := t.(*types.Named); ok && n.Obj().Pkg() == nil && (n.Obj().Name() == "$dom" || n.Obj().Name() == "$val" || n.Obj().Name() == "$row") {
		return n.Obj().Name()
	}
	return ""
}

func (fc *FnCtx) domType(mt *types.Map) types.Type {
	key := "|$dom|" + types.TypeString(mt.Key(), nil)
	if t, ok := pseudoTypes[key]; ok {
		return t
	}
	t := types.NewNamed(types.NewTypeName(0, nil, "$dom", nil), types.NewMap(mt.Key(), types.Typ[types.Bool]), nil)
	pseudoTypes[key] = t
	return t
}

func (fc *FnCtx) valType(mt *types.Map) types.Type {
	key := "|$val|" + types.TypeString(mt, nil)
	if t, ok := pseudoTypes[key]; ok {
		return t
	}
	t := types.NewNamed(types.NewTypeName(0, nil, "$val", nil), mt, nil)
	pseudoTypes[key] = t
	return t
}

// enumFuncs declares the canonical enumeration of a map domain.
func (e *Engine) enumFuncs(ks Sort) (ek, eidx string) {
	ek = "ek_" + mangle(string(ks))
	eidx = "eidx_" + mangle(string(ks))
	e.GDecl(ek, fmt.Sprintf("(declare-fun %s (%s Int) %s)", ek, ArraySort(ks, SBool), ks))
	e.GDecl(eidx, fmt.Sprintf("(declare-fun %s (%s %s) Int)", eidx, ArraySort(ks, SBool), ks))
	return
}

// localAlloc finds the memory cell of a local variable visible at pos.
func (fc *FnCtx) localAlloc(name string, poss ...token.Pos) *ssa.Alloc {
	cands := fc.localAllocs[name]
	if len(cands) == 0 {
		return nil
	}
	if len(cands) == 1 {
		return cands[0]
	}
	pkg := fc.eng.Pkgs[fc.tpkg.Path()]
	if pkg != nil {
		for _, pos := range poss {
			if !pos.IsValid() {
				continue
			}
			inner := pkg.Types.Scope().Innermost(pos)
			if inner == nil {
				continue
			}
			if _, obj := inner.LookupParent(name, pos); obj != nil {
				for _, a := range cands {
					if a.Pos() == obj.Pos() {
						return a
					}
				}
				if os.Getenv("GOVC_DEBUG") != "" {
					fmt.Fprintf(os.Stderr, "DEBUG localAlloc %s at %v: obj pos %v, cands:", name, fc.eng.Fset.Position(pos), fc.eng.Fset.Position(obj.Pos()))
					for _, a := range cands {
						fmt.Fprintf(os.Stderr, " %v", fc.eng.Fset.Position(a.Pos()))
					}
					fmt.Fprintln(os.Stderr)
				}
			} else if os.Getenv("GOVC_DEBUG") != "" {
				fmt.Fprintf(os.Stderr, "DEBUG localAlloc %s at %v: not found in scope %v (names %v)\n", name, fc.eng.Fset.Position(pos), fc.eng.Fset.Position(inner.Pos()), inner.Names())
			}
		}
	}
	return nil
}

func (sc *Scope) lookupIdent(name string) (specVal, bool) {
	fc := sc.fc
	for i := len(sc.bound) - 1; i >= 0; i-- {
		if v, ok := sc.bound[i][name]; ok {
			return v, true
		}
	}
	if v, ok := sc.extra[name]; ok {
		return v, true
	}
	if sc.mode == "callee" {
		if v, ok := sc.bind[name]; ok {
			return v, true
		}
		return sc.pkgLevel(name)
	}
	if sc.mode == "global" {
		return sc.pkgLevel(name)
	}
	fn := fc.fn
	// results
	if sc.results != nil {
		res := fn.Signature.Results()
		if name == "result" && len(sc.results) >= 1 {
			return specVal{t: sc.results[0], ty: res.At(0).Type()}, true
		}
		for i := 0; i < res.Len() && i < len(sc.results); i++ {
			if name == fmt.Sprintf("result%d", i) {
				return specVal{t: sc.results[i], ty: res.At(i).Type()}, true
			}
		}
		for i := 0; i < res.Len(); i++ {
			if res.At(i).Name() == name && i < len(sc.results) {
				return specVal{t: sc.results[i], ty: res.At(i).Type()}, true
			}
		}
	}
	// loop specials
	if sc.loop != nil || strings.HasPrefix(name, "$i") || strings.HasPrefix(name, "$n") {
		li0 := sc.loop
		base := name
		// $i<k> / $n<k>: the counter / length of the loop with ordinal k (an
		// enclosing range loop, named from an inner loop's invariant)
		if len(name) > 2 && (strings.HasPrefix(name, "$i") || strings.HasPrefix(name, "$n")) {
			if k, err := strconv.Atoi(name[2:]); err == nil {
				for _, l := range fc.loops {
					if l.Ord == k {
						li0 = l
						base = name[:2]
					}
				}
			}
		}
		switch base {
		case "$i":
			li := li0
			if li == nil {
				break
			}
			if li.rangeIdx != nil {
				phi := fc.lookupIn(sc.curEnv(), fc.phiVar(li.rangeIdx))
				return specVal{t: T(SInt, "(+ %s 1)", phi.S), ty: tInt}, true
			}
			if li.rangeCell != nil {
				if v, ok := fc.vals[li.rangeCell]; ok && v.P != nil {
					c := fc.lookupIn(sc.curEnv(), v.P.Var)
					return specVal{t: T(SInt, "(+ %s 1)", c.S), ty: tInt}, true
				}
			}
			if li.rangeInstr != nil {
				if me := fc.mapEnums[li.rangeInstr]; me != nil {
					return specVal{t: fc.lookupIn(sc.curEnv(), me.iter), ty: tInt}, true
				}
			}
		case "$n":
			li := li0
			if li == nil {
				break
			}
			if li.rangeInstr != nil {
				if me := fc.mapEnums[li.rangeInstr]; me != nil {
					return specVal{t: me.n, ty: tInt}, true
				}
			}
			if li.rangeLen != nil {
				return specVal{t: fc.term(li.rangeLen), ty: tInt}, true
			}
		}
	}
	// ghost
	if ty, ok := fc.ghostTypes[name]; ok {
		return specVal{t: fc.lookupIn(sc.curEnv(), "g_"+name), ty: ty}, true
	}
	// parameters: entry value in pre/post and inside old(); current cell otherwise
	useEntry := sc.mode == "pre" || sc.mode == "post" || sc.inOld
	for _, p := range fn.Params {
		if p.Name() == name {
			if useEntry {
				return specVal{t: fc.vals[p].T, ty: p.Type()}, true
			}
			if a := fc.localAlloc(name, sc.pos); a != nil {
				if v, ok := fc.vals[a]; ok && v.P != nil {
					return specVal{p: v.P, ty: p.Type()}, true
				}
			}
			return specVal{t: fc.vals[p].T, ty: p.Type()}, true
		}
	}
	// captured variables
	for _, fv := range fn.FreeVars {
		if fv.Name() == name {
			et := fv.Type().Underlying().(*types.Pointer).Elem()
			if v := fc.vals[fv]; v.P != nil {
				return specVal{p: v.P, ty: et}, true
			}
			return specVal{p: fc.placeOfPtr(fc.vals[fv].T, et), ty: et}, true
		}
	}
	// locals
	var poss []token.Pos
	if !sc.preferLate {
		poss = append(poss, sc.pos)
	}
	if sc.loop != nil {
		// a position late in the loop body sees the loop variables
		var mx token.Pos
		for b := range sc.loop.Blocks {
			for _, in := range b.Instrs {
				if p := in.Pos(); p > mx {
					mx = p
				}
			}
		}
		poss = append(poss, mx)
	}
	if sc.preferLate {
		poss = append(poss, sc.pos)
	}
	if a := fc.localAlloc(name, poss...); a != nil {
		if v, ok := fc.vals[a]; ok && v.P != nil {
			et := a.Type().Underlying().(*types.Pointer).Elem()
			return specVal{p: v.P, ty: et}, true
		}
		// the cell exists but has not been allocated on this path yet
		et := a.Type().Underlying().(*types.Pointer).Elem()
		if !a.Heap {
			nm := fc.cellName(a)
			fc.stateVar(nm, fc.eng.U.SortOf(et), false)
			return specVal{p: &Place{Kind: PCell, Var: nm, Type: et}, ty: et}, true
		}
	}
	return sc.pkgLevel(name)
}

func (sc *Scope) pkgLevel(name string) (specVal, bool) {
	if sc.pkg == nil {
		return specVal{}, false
	}
	obj := sc.pkg.Scope().Lookup(name)
	if obj == nil {
		return specVal{}, false
	}
	return sc.objValue(obj)
}

func (sc *Scope) objValue(obj types.Object) (specVal, bool) {
	fc := sc.fc
	switch o := obj.(type) {
	case *types.Const:
		return specVal{t: constValTerm(o.Val(), fc.eng.U.SortOf(o.Type())), ty: o.Type()}, true
	case *types.Var:
		sp := fc.eng.Prog.Package(o.Pkg())
		if sp == nil {
			return specVal{}, false
		}
		g, ok := sp.Members[o.Name()].(*ssa.Global)
		if !ok {
			return specVal{}, false
		}
		p := fc.globalPlace(g)
		return specVal{p: p, ty: p.Type}, true
	}
	return specVal{}, false
}

func constValTerm(v constant.Value, sort Sort) Term {
	switch v.Kind() {
	case constant.Bool:
		return BoolLit(constant.BoolVal(v))
	case constant.String:
		return StrLit(constant.StringVal(v))
	case constant.Int:
		if sort == SReal {
			return Term{"(to_real " + BigLit(v.ExactString()).S + ")", SReal}
		}
		return BigLit(v.ExactString())
	case constant.Float:
		return realLit(v)
	}
	return IntLit(0)
}

func (sc *Scope) valTerm(v specVal) Term {
	if v.p != nil {
		return sc.fc.loadPlaceIn(sc.curEnv(), v.p)
	}
	return v.t
}

func isUntyped(t types.Type) bool {
	b, ok := t.(*types.Basic)
	return ok && b.Info()&types.IsUntyped != 0
}

func deref(t types.Type) (types.Type, bool) {
	if p, ok := t.Underlying().(*types.Pointer); ok {
		return p.Elem(), true
	}
	return t, false
}

func (sc *Scope) tr(e Expr) (Term, types.Type) {
	fc := sc.fc
	u := fc.eng.U
	switch x := e.(type) {
	case *EInt:
		return BigLit(x.Val), tUInt
	case *EFloat:
		return Term{x.Val, SReal}, tFloat
	case *EStr:
		return StrLit(x.Val), tString
	case *EBool:
		return BoolLit(x.Val), tBool
	case *ENil:
		return IntLit(0), types.Typ[types.UntypedNil]
	case *EIdent:
		v, ok := sc.lookupIdent(x.Name)
		if !ok {
			sc.fail("unknown name %q", x.Name)
		}
		return sc.valTerm(v), v.ty
	case *EOld:
		if sc.old == nil {
			sc.fail("old() not available here")
		}
		save := sc.inOld
		sc.inOld = true
		t, ty := sc.tr(x.X)
		sc.inOld = save
		return t, ty
	case *ECond:
		c := sc.trBool(x.C)
		a, ta := sc.tr(x.A)
		b, tb := sc.tr(x.B)
		a, b = sc.unify(a, ta, b, tb)
		if isUntyped(ta) {
			ta = tb
		}
		return Ite(c, a, b), ta
	case *EUnary:
		switch x.Op {
		case "!":
			return Not(sc.trBool(x.X)), tBool
		case "-":
			t, ty := sc.tr(x.X)
			return T(t.Sort, "(- %s)", t.S), ty
		case "*":
			t, ty := sc.tr(x.X)
			et, ok := deref(ty)
			if !ok {
				sc.fail("* of non-pointer %s", x.X)
			}
			return fc.loadPlaceIn(sc.curEnv(), fc.placeOfPtr(t, et)), et
		}
	case *EBinary:
		return sc.trBinary(x)
	case *ESel:
		return sc.trSel(x)
	case *EIndex:
		xt, ty := sc.tr(x.X)
		it, ity := sc.tr(x.I)
		if pk := pseudoKind(ty); pk == "$row" {
			return Select(xt, it), ty.Underlying().(*types.Slice).Elem()
		} else if pk != "" {
			mt := ty.Underlying().(*types.Map)
			if pk == "$dom" {
				return Select(xt, it), tBool
			}
			return Select(xt, it), mt.Elem()
		}
		switch tt := ty.Underlying().(type) {
		case *types.Slice:
			mem := fc.lookupIn(sc.curEnv(), fc.memVar(tt.Elem()))
			return Select(Select(mem, T(SInt, "(s_arr %s)", xt.S)), fc.ix(T(SInt, "(s_off %s)", xt.S), it)), tt.Elem()
		case *types.Array:
			return Select(xt, it), tt.Elem()
		case *types.Map:
			if _, isIface := tt.Key().Underlying().(*types.Interface); isIface {
				if _, already := ity.Underlying().(*types.Interface); !already && !isUntyped(ity) {
					it = fc.box(ity, it)
				}
			}
			dom, val, _ := fc.mapVars(tt)
			has := And(T(SBool, "(not (= %s 0))", xt.S), Select(Select(fc.lookupIn(sc.curEnv(), dom), xt), it))
			return Ite(has, Select(Select(fc.lookupIn(sc.curEnv(), val), xt), it), u.Zero(tt.Elem())), tt.Elem()
		case *types.Basic:
			return T(SInt, "(str.to_code (str.at %s %s))", xt.S, it.S), tByte
		case *types.Pointer:
			if at, ok := tt.Elem().Underlying().(*types.Array); ok {
				arr := fc.loadPlaceIn(sc.curEnv(), fc.placeOfPtr(xt, tt.Elem()))
				return Select(arr, it), at.Elem()
			}
		}
		sc.fail("cannot index %s (type %s)", x.X, ty)
	case *ESlice:
		xt, ty := sc.tr(x.X)
		var lo, hi *Term
		if x.Lo != nil {
			t, _ := sc.tr(x.Lo)
			lo = &t
		}
		if x.Hi != nil {
			t, _ := sc.tr(x.Hi)
			hi = &t
		}
		switch ty.Underlying().(type) {
		case *types.Slice:
			return fc.sliceOfSlice(xt, lo, hi, nil, token.NoPos, false), ty
		case *types.Basic:
			return fc.sliceOfString(xt, lo, hi, token.NoPos, false), ty
		}
		sc.fail("cannot slice %s", x.X)
	case *ECall:
		return sc.trCall(x)
	case *EQuant:
		frame := map[string]specVal{}
		var decl []string
		var guards []Term
		for _, v := range x.Vars {
			ty := fc.lookupTypeNameIn(v.Type, sc.pkg.Path())
			if ty == nil {
				sc.fail("unknown type %s", v.Type)
			}
			name := "q_" + mangle(v.Name)
			// avoid capture by nested quantifiers with the same name
			for _, fr := range sc.bound {
				if _, clash := fr[v.Name]; clash {
					fc.fresh++
					name = fmt.Sprintf("q_%s_%d", mangle(v.Name), fc.fresh)
				}
			}
			frame[v.Name] = specVal{t: Term{name, u.SortOf(ty)}, ty: ty}
			decl = append(decl, fmt.Sprintf("(%s %s)", name, u.SortOf(ty)))
			if lo, hi, ok := intRange(ty); ok && v.Type != "int" {
				guards = append(guards, T(SBool, "(and (<= %s %s) (<= %s %s))", BigLit(lo).S, name, name, BigLit(hi).S))
			}
		}
		sc.bound = append(sc.bound, frame)
		body := sc.trBool(x.Body)
		var pats []string
		for _, p := range x.Pats {
			var ts []string
			for _, pe := range p {
				t, _ := sc.tr(pe)
				ts = append(ts, t.S)
			}
			pats = append(pats, ":pattern ("+strings.Join(ts, " ")+")")
		}
		sc.bound = sc.bound[:len(sc.bound)-1]
		q := "exists"
		if x.Forall {
			q = "forall"
			body = Implies(And(guards...), body)
		} else {
			body = And(append(guards, body)...)
		}
		if len(pats) > 0 {
			return T(SBool, "(%s (%s) (! %s %s))", q, strings.Join(decl, " "), body.S, strings.Join(pats, " ")), tBool
		}
		return T(SBool, "(%s (%s) %s)", q, strings.Join(decl, " "), body.S), tBool
	}
	sc.fail("cannot translate %s", e)
	return Term{}, nil
}

// unify makes literals agree with the sort of the other operand.
func (sc *Scope) unify(a Term, ta types.Type, b Term, tb types.Type) (Term, Term) {
	if a.Sort == b.Sort {
		return a, b
	}
	if a.Sort == SReal && b.Sort == SInt {
		return a, T(SReal, "(to_real %s)", b.S)
	}
	if a.Sort == SInt && b.Sort == SReal {
		return T(SReal, "(to_real %s)", a.S), b
	}
	// nil against slices
	if b.S == "0" && a.Sort == SSlice {
		return T(SInt, "(s_arr %s)", a.S), b
	}
	if a.S == "0" && b.Sort == SSlice {
		return a, T(SInt, "(s_arr %s)", b.S)
	}
	return a, b
}

func (sc *Scope) trBinary(x *EBinary) (Term, types.Type) {
	fc := sc.fc
	switch x.Op {
	case "&&":
		return And(sc.trBool(x.X), sc.trBool(x.Y)), tBool
	case "||":
		return Or(sc.trBool(x.X), sc.trBool(x.Y)), tBool
	case "==>":
		return Implies(sc.trBool(x.X), sc.trBool(x.Y)), tBool
	case "<==>":
		return Eq(sc.trBool(x.X), sc.trBool(x.Y)), tBool
	}
	a, ta := sc.tr(x.X)
	b, tb := sc.tr(x.Y)
	// interface vs concrete comparison: box the concrete side
	if x.Op == "==" || x.Op == "!=" {
		_, ia := ta.Underlying().(*types.Interface)
		_, ib := tb.Underlying().(*types.Interface)
		if ia && !ib && !isUntyped(tb) {
			b = fc.box(tb, b)
		} else if ib && !ia && !isUntyped(ta) {
			a = fc.box(ta, a)
		}
	}
	a, b = sc.unify(a, ta, b, tb)
	rt := ta
	if isUntyped(ta) {
		rt = tb
	}
	switch x.Op {
	case "==":
		if a.Sort != b.Sort {
			sc.fail("comparing %s (%s) with %s (%s)", x.X, a.Sort, x.Y, b.Sort)
		}
		return Eq(a, b), tBool
	case "!=":
		if a.Sort != b.Sort {
			sc.fail("comparing %s (%s) with %s (%s)", x.X, a.Sort, x.Y, b.Sort)
		}
		return Not(Eq(a, b)), tBool
	case "<", "<=", ">", ">=":
		if a.Sort == SString {
			switch x.Op {
			case "<":
				return T(SBool, "(str.< %s %s)", a.S, b.S), tBool
			case "<=":
				return T(SBool, "(str.<= %s %s)", a.S, b.S), tBool
			case ">":
				return T(SBool, "(str.< %s %s)", b.S, a.S), tBool
			default:
				return T(SBool, "(str.<= %s %s)", b.S, a.S), tBool
			}
		}
		return T(SBool, "(%s %s %s)", x.Op, a.S, b.S), tBool
	case "+":
		if a.Sort == SString {
			return T(SString, "(str.++ %s %s)", a.S, b.S), rt
		}
		return T(a.Sort, "(+ %s %s)", a.S, b.S), rt
	case "-":
		return T(a.Sort, "(- %s %s)", a.S, b.S), rt
	case "*":
		return T(a.Sort, "(* %s %s)", a.S, b.S), rt
	case "/":
		if a.Sort == SReal {
			return T(SReal, "(/ %s %s)", a.S, b.S), rt
		}
		return goDiv(a, b), rt
	case "%":
		return goMod(a, b), rt
	case "&", "|":
		if x.Op == "&" {
			if m, ok := intLiteral(b); ok && m >= 0 {
				return bitandConst(a, m), rt
			}
			if m, ok := intLiteral(a); ok && m >= 0 {
				return bitandConst(b, m), rt
			}
		}
		if x.Op == "|" {
			// constant | constant
			if m1, ok1 := intLiteral(a); ok1 {
				if m2, ok2 := intLiteral(b); ok2 {
					return IntLit(m1 | m2), rt
				}
			}
		}
		name := map[string]string{"&": "bitand", "|": "bitor"}[x.Op]
		fc.eng.GDecl(name, fmt.Sprintf("(declare-fun %s (Int Int) Int)", name))
		fc.eng.bitAxioms()
		return T(SInt, "(%s %s %s)", name, a.S, b.S), rt
	case "<<":
		if lit, ok := x.Y.(*EInt); ok {
			var k int64
			fmt.Sscan(lit.Val, &k)
			return T(SInt, "(* %s %s)", a.S, pow2(k)), rt
		}
	case ">>":
		if lit, ok := x.Y.(*EInt); ok {
			var k int64
			fmt.Sscan(lit.Val, &k)
			return T(SInt, "(div %s %s)", a.S, pow2(k)), rt
		}
	}
	sc.fail("operator %s", x.Op)
	return Term{}, nil
}

func (sc *Scope) importedPkg(name string) *types.Package {
	if sc.pkg == nil {
		return nil
	}
	for _, im := range sc.pkg.Imports() {
		if im.Name() == name {
			return im
		}
	}
	return nil
}

func (sc *Scope) trSel(x *ESel) (Term, types.Type) {
	fc := sc.fc
	u := fc.eng.U
	// qualified identifier?
	if id, ok := x.X.(*EIdent); ok {
		if _, isVal := sc.lookupIdent(id.Name); !isVal {
			if ip := sc.importedPkg(id.Name); ip != nil {
				obj := ip.Scope().Lookup(x.Name)
				if obj == nil {
					sc.fail("no %s in package %s", x.Name, id.Name)
				}
				save := sc.pkg
				v, ok := sc.objValue(obj)
				sc.pkg = save
				if !ok {
					sc.fail("cannot use %s.%s", id.Name, x.Name)
				}
				return sc.valTerm(v), v.ty
			}
		}
	}
	xt, ty := sc.tr(x.X)
	obj, path, _ := types.LookupFieldOrMethod(ty, true, nil, x.Name)
	if obj == nil {
		// unexported fields need the declaring package
		if n := namedOf(ty); n != nil && n.Obj().Pkg() != nil {
			obj, path, _ = types.LookupFieldOrMethod(ty, true, n.Obj().Pkg(), x.Name)
		}
	}
	fld, ok := obj.(*types.Var)
	if !ok || !fld.IsField() {
		sc.fail("no field %s in %s", x.Name, ty)
	}
	cur, curT := xt, ty
	for _, idx := range path {
		if et, isPtr := deref(curT); isPtr {
			si := u.StructOf(et)
			if si == nil || opaqueNamed(et) {
				sc.fail("field of opaque type %s", et)
			}
			hv := fc.lookupIn(sc.curEnv(), fc.heapFieldVar(si, idx))
			cur = Select(hv, cur)
			curT = si.Fields[idx].Type
			// heap well-formedness, as for instruction-level loads: a reference
			// read from the heap was allocated before the state it is read in
			if len(sc.bound) == 0 && fc.cur != nil && sc.mode != "global" {
				ref := cur
				isRef := false
				switch curT.Underlying().(type) {
				case *types.Pointer, *types.Map, *types.Chan:
					isRef = true
				case *types.Slice:
					if pseudoKind(curT) == "" {
						isRef = true
						ref = T(SInt, "(s_arr %s)", cur.S)
						fc.assume(T(SBool, "(and (<= 0 (s_off %[1]s)) (<= 0 (s_len %[1]s)) (<= (s_len %[1]s) (s_cap %[1]s)) (=> (= (s_arr %[1]s) 0) (= (s_cap %[1]s) 0)))", cur.S))
					}
				}
				if isRef {
					cur0 := cur
					cur = ref
					al := fc.lookupIn(sc.curEnv(), "alloc")
					fc.assume(T(SBool, "(and (>= %s 0) (<= %s %s))", cur.S, cur.S, al.S))
					for _, ev := range fc.allocEvents {
						inc, ok := ev.inc[fc.heapFieldVar(si, idx)]
						if !ok {
							inc = fmt.Sprintf("%s!e%d", fc.heapFieldVar(si, idx), ev.epoch)
						}
						if inc == hv.S {
							fc.assume(T(SBool, "(<= %s %s)", cur.S, ev.before.S))
							break
						}
					}
					cur = cur0
				}
			}
			continue
		}
		si := u.StructOf(curT)
		if si == nil || opaqueNamed(curT) {
			sc.fail("field of non-struct %s", curT)
		}
		f := si.Fields[idx]
		cur = App(f.Sort, f.Sel, cur)
		curT = f.Type
	}
	return cur, curT
}

func namedOf(t types.Type) *types.Named {
	if p, ok := t.Underlying().(*types.Pointer); ok {
		t = p.Elem()
	}
	if p, ok := t.(*types.Pointer); ok {
		t = p.Elem()
	}
	n, _ := t.(*types.Named)
	return n
}

// specBuiltins: engine-level uninterpreted functions available to contracts.
type builtinSpec struct {
	smt  string
	args []Sort
	res  Sort
	rty  types.Type
}

var specBuiltins = map[string]builtinSpec{
	"md5hex":      {"md5hex", []Sort{SString}, SString, tString},
	"hmacsha1hex": {"hmacsha1hex", []Sort{SString, SString}, SString, tString},
	"hexlower":    {"hexlower", []Sort{SString}, SString, tString},
	"fmt08x":      {"fmt08x", []Sort{SInt}, SString, tString},
	"fmtx":        {"fmtx", []Sort{SInt}, SString, tString},
	"itoa":        {"itoa", []Sort{SInt}, SString, tString},
	"parsehex":    {"parsehex", []Sort{SString}, SInt, tInt},
	"parseok":     {"parseok", []Sort{SString, SInt}, SBool, tBool},
	"parseint":    {"parseint", []Sort{SString, SInt}, SInt, tInt},
	"splitcount":  {"splitcount", []Sort{SString, SString}, SInt, tInt},
	"splitpart":   {"splitpart", []Sort{SString, SString, SInt}, SString, tString},
}

// specLibFuncs: pure deterministic library functions usable in contracts as
// lib.Func(receiver, args...); they denote the same uninterpreted functions
// as calls in the code.
var specLibFuncs = map[string]types.Type{
	"time.Time.Unix":        types.Typ[types.Int64],
	"time.Time.UnixNano":    types.Typ[types.Int64],
	"time.Duration.Seconds": types.Typ[types.Float64],
	"strconv.FormatInt":     types.Typ[types.String],
	"strings.TrimSpace":     types.Typ[types.String],
	"strings.ToLower":       types.Typ[types.String],
	"strings.LastIndex":     types.Typ[types.Int],
	"time.Time.Before":      types.Typ[types.Bool],
	"time.Time.IsZero":      types.Typ[types.Bool],
	"os.File.Name":          types.Typ[types.String],
	"strings.Replace":       types.Typ[types.String],
	"FileInfo.Name":         types.Typ[types.String],
	"FileInfo.Size":         types.Typ[types.Int64],
	"FileInfo.ModTime":      types.Typ[types.Int64], // time.Time is modelled as an integer
	"time.Time.Add":         types.Typ[types.Int64], // time.Time is modelled as an integer
	"time.Unix":             types.Typ[types.Int64],
	"time.Since":            types.Typ[types.Int64],
	"time.Time.After":       types.Typ[types.Bool],
}

func (e *Engine) declBuiltin(name string) {
	b := specBuiltins[name]
	var as []string
	for _, a := range b.args {
		as = append(as, string(a))
	}
	e.GDecl(b.smt, fmt.Sprintf("(declare-fun %s (%s) %s)", b.smt, strings.Join(as, " "), b.res))
}

func (sc *Scope) trCall(x *ECall) (Term, types.Type) {
	fc := sc.fc
	u := fc.eng.U
	name := ""
	switch f := x.Fun.(type) {
	case *EIdent:
		name = f.Name
	case *ESel:
		if id, ok := f.X.(*EIdent); ok {
			name = id.Name + "." + f.Name
		} else if inner, ok := f.X.(*ESel); ok {
			if id, ok := inner.X.(*EIdent); ok {
				name = id.Name + "." + inner.Name + "." + f.Name
			}
		}
	}
	if name == "" {
		sc.fail("cannot call %s", x.Fun)
	}
	arg := func(i int) (Term, types.Type) {
		if i >= len(x.Args) {
			sc.fail("%s: missing argument %d", name, i)
		}
		return sc.tr(x.Args[i])
	}
	switch name {
	case "len":
		t, ty := arg(0)
		return fc.lenOf(ty, t, sc.curEnv()), tInt
	case "cap":
		t, cty := arg(0)
		if _, isChan := cty.Underlying().(*types.Chan); isChan {
			fc.eng.GDecl("chancap", "(declare-fun chancap (Int) Int)")
			return T(SInt, "(chancap %s)", t.S), tInt
		}
		return T(SInt, "(s_cap %s)", t.S), tInt
	case "has":
		m, mty := arg(0)
		k, kty := arg(1)
		mt, ok := mty.Underlying().(*types.Map)
		if !ok {
			sc.fail("has: not a map")
		}
		if _, isIface := mt.Key().Underlying().(*types.Interface); isIface && !isUntyped(kty) {
			if _, already := kty.Underlying().(*types.Interface); !already {
				k = fc.box(kty, k)
			}
		}
		dom, _, _ := fc.mapVars(mt)
		return T(SBool, "(and (not (= %s 0)) %s)", m.S, Select(Select(fc.lookupIn(sc.curEnv(), dom), m), k).S), tBool
	case "regexliteral":
		// the pattern a package-level *regexp.Regexp variable is compiled from
		// (a string constant; lets a lemma pin the pattern a contract relies on)
		if len(x.Args) != 1 {
			sc.fail("regexliteral: one argument")
		}
		var pkgT *types.Package = sc.pkg
		gname := ""
		switch a := x.Args[0].(type) {
		case *EIdent:
			gname = a.Name
		case *ESel:
			if id, ok := a.X.(*EIdent); ok {
				if ip := sc.importedPkg(id.Name); ip != nil {
					pkgT, gname = ip, a.Name
				}
			}
		}
		if gname == "" || pkgT == nil {
			sc.fail("regexliteral: argument must name a package-level variable")
		}
		sp := fc.eng.Prog.Package(pkgT)
		if sp == nil {
			sc.fail("regexliteral: package %s not loaded", pkgT.Path())
		}
		g, ok := sp.Members[gname].(*ssa.Global)
		if !ok {
			sc.fail("regexliteral: %s is not a package-level variable", gname)
		}
		lit, ok := fc.eng.regexInit(g)
		if !ok {
			sc.fail("regexliteral: %s is not initialised by regexp.MustCompile(<constant>) or is reassigned", gname)
		}
		return StrLit(lit), types.Typ[types.String]
	case "arr":
		// identity of a slice's backing array (0 for a nil slice)
		sl, sty := arg(0)
		if _, ok := sty.Underlying().(*types.Slice); !ok || pseudoKind(sty) != "" {
			sc.fail("arr: not a slice")
		}
		return T(SInt, "(s_arr %s)", sl.S), tInt
	case "allocated":
		// the reference was allocated no later than the state it is named in
		// (true of every reference of a real state; lets invariants separate
		// older objects from ones allocated later)
		r, rty := arg(0)
		al := fc.lookupIn(sc.curEnv(), "alloc")
		switch rty.Underlying().(type) {
		case *types.Slice:
			return T(SBool, "(<= (s_arr %s) %s)", r.S, al.S), tBool
		case *types.Pointer, *types.Map, *types.Chan:
			return T(SBool, "(<= %s %s)", r.S, al.S), tBool
		}
		sc.fail("allocated: not a reference")
	case "row", "rowoff":
		// the backing array of a slice as a value, and the slice's offset into it
		sl, sty := arg(0)
		st, ok := sty.Underlying().(*types.Slice)
		if !ok || pseudoKind(sty) != "" {
			sc.fail("%s: not a slice", name)
		}
		if name == "rowoff" {
			return T(SInt, "(s_off %s)", sl.S), tInt
		}
		mem := fc.lookupIn(sc.curEnv(), fc.memVar(st.Elem()))
		return Select(mem, T(SInt, "(s_arr %s)", sl.S)), fc.rowType(st.Elem())
	case "ix":
		a, _ := arg(0)
		b, _ := arg(1)
		return fc.ix(a, b), tInt
	case "dom", "vals", "mapkey", "mapat":
		m, mty := arg(0)
		mt, ok := mty.Underlying().(*types.Map)
		if !ok || pseudoKind(mty) != "" {
			sc.fail("%s: not a map", name)
		}
		dv, vv, _ := fc.mapVars(mt)
		d := Select(fc.lookupIn(sc.curEnv(), dv), m)
		v := Select(fc.lookupIn(sc.curEnv(), vv), m)
		switch name {
		case "dom":
			return d, fc.domType(mt)
		case "vals":
			return v, fc.valType(mt)
		}
		j, _ := arg(1)
		ek, _ := fc.eng.enumFuncs(u.SortOf(mt.Key()))
		k := App(u.SortOf(mt.Key()), ek, d, j)
		if name == "mapkey" {
			return k, mt.Key()
		}
		return Select(v, k), mt.Elem()
	case "ekey":
		d, dty := arg(0)
		j, _ := arg(1)
		if pseudoKind(dty) != "$dom" {
			sc.fail("ekey: first argument must be a $dom value")
		}
		kt := dty.Underlying().(*types.Map).Key()
		ek, _ := fc.eng.enumFuncs(u.SortOf(kt))
		return App(u.SortOf(kt), ek, d, j), kt
	case "abs":
		t, ty := arg(0)
		return T(t.Sort, "(ite (>= %[1]s 0) %[1]s (- %[1]s))", t.S), ty
	case "min", "max":
		a, ta := arg(0)
		b, tb := arg(1)
		a, b = sc.unify(a, ta, b, tb)
		op := "<="
		if name == "max" {
			op = ">="
		}
		if isUntyped(ta) {
			ta = tb
		}
		return T(a.Sort, "(ite (%s %s %s) %s %s)", op, a.S, b.S, a.S, b.S), ta
	case "int", "int64", "int32", "uint64", "uint32", "uint", "uint8", "byte", "int8", "int16", "uint16":
		t, _ := arg(0)
		ty := types.Universe.Lookup(name).Type()
		if t.Sort == SReal {
			return T(SInt, "(ite (>= %[1]s 0.0) (to_int %[1]s) (- (to_int (- %[1]s))))", t.S), ty
		}
		return t, ty
	case "float64":
		t, _ := arg(0)
		if t.Sort == SInt {
			return T(SReal, "(to_real %s)", t.S), tFloat
		}
		return t, tFloat
	case "string":
		t, ty := arg(0)
		if _, ok := ty.Underlying().(*types.Slice); ok {
			return fc.bstrIn(sc.curEnv(), t), tString
		}
		return t, tString
	case "strings.HasPrefix":
		a, _ := arg(0)
		b, _ := arg(1)
		return T(SBool, "(str.prefixof %s %s)", b.S, a.S), tBool
	case "strings.HasSuffix":
		a, _ := arg(0)
		b, _ := arg(1)
		return T(SBool, "(str.suffixof %s %s)", b.S, a.S), tBool
	case "strings.Contains":
		a, _ := arg(0)
		b, _ := arg(1)
		return T(SBool, "(str.contains %s %s)", a.S, b.S), tBool
	case "strings.Index":
		a, _ := arg(0)
		b, _ := arg(1)
		return T(SInt, "(str.indexof %s %s 0)", a.S, b.S), tInt
	case "stream":
		// the complete byte stream an io.Reader will deliver
		t, _ := arg(0)
		fc.eng.GDecl("streamdata", "(declare-fun streamdata (Int) String)")
		return T(SString, "(streamdata %s)", t.S), tString
	case "streamat":
		// k-th byte of the stream an io.Reader will deliver
		t, _ := arg(0)
		k, _ := arg(1)
		fc.eng.GDecl("streamarr", "(declare-fun streamarr (Int) (Array Int Int))")
		return T(SInt, "(select (streamarr %s) %s)", t.S, k.S), tByte
	case "streamlen":
		t, _ := arg(0)
		fc.eng.GDecl("streamlen", "(declare-fun streamlen (Int) Int)")
		fc.eng.GAxiom("streamlen_nonneg", "(assert (forall ((r Int)) (! (>= (streamlen r) 0) :pattern ((streamlen r)))))", "streamlen")
		return T(SInt, "(streamlen %s)", t.S), tInt
	case "cursor":
		// how many bytes of stream(r) have been delivered so far
		t, _ := arg(0)
		return Select(fc.lookupIn(sc.curEnv(), fc.libStateVar("stream")), t), tInt
	case "written":
		// bytes written so far to an io.Writer / hash.Hash
		t, _ := arg(0)
		return Select(fc.lookupIn(sc.curEnv(), fc.libStateVar("written")), t), tString
	case "hashsumhex":
		// lowercase hex digest of what has been written to a hash.Hash
		t, _ := arg(0)
		fc.eng.digestDecls()
		w := Select(fc.lookupIn(sc.curEnv(), fc.libStateVar("written")), t)
		return T(SString, "(hexlower (digestraw (hashalg %s) (hashkey %s) %s))", t.S, t.S, w.S), tString
	case "hashalg":
		t, _ := arg(0)
		fc.eng.digestDecls()
		return T(SInt, "(hashalg %s)", t.S), tInt
	case "typeof":
		t, _ := arg(0)
		fc.eng.GDecl("typeof", "(declare-fun typeof (Int) Int)")
		return T(SInt, "(typeof %s)", t.S), tInt
	case "matches":
		// matches(s, `regex`) : full-match membership of a literal pattern
		s, _ := arg(0)
		lit, ok := x.Args[1].(*EStr)
		if !ok {
			sc.fail("matches: pattern must be a literal")
		}
		re, err := regexToSMT(lit.Val)
		if err != nil {
			sc.fail("matches: %v", err)
		}
		return T(SBool, "(str.in_re %s %s)", s.S, re), tBool
	case "istype":
		// istype(x, T): dynamic type test of an interface value
		t, _ := arg(0)
		id := exprTypeName(x.Args[1])
		ty := fc.lookupTypeNameIn(id, sc.pkg.Path())
		if ty == nil {
			sc.fail("istype: unknown type %s", id)
		}
		_, ok := fc.unbox(ty, t)
		return ok, tBool
	case "unbox":
		t, _ := arg(0)
		id := exprTypeName(x.Args[1])
		ty := fc.lookupTypeNameIn(id, sc.pkg.Path())
		if ty == nil {
			sc.fail("unbox: unknown type %s", id)
		}
		v, _ := fc.unbox(ty, t)
		return v, ty
	case "iface":
		// iface(x): the interface value holding x
		t, ty := arg(0)
		return fc.box(ty, t), types.Universe.Lookup("error").Type()
	}
	if ct := fc.eng.Assumed(sc.scopePkgPath(), name); ct != nil && ct.Flags["pure"] {
		// assumed pure interface method: Iface.Method(receiver, args...)
		rty := sc.ifaceMethodResult(name)
		if rty == nil {
			// interface of another package (os.FileInfo ...): known result types
			rty = specLibFuncs[name]
		}
		if rty == nil {
			sc.fail("%s: cannot determine the result type", name)
		}
		var as []Term
		var sorts []string
		for i := range x.Args {
			t, _ := arg(i)
			as = append(as, t)
			sorts = append(sorts, string(t.Sort))
		}
		uf := fmt.Sprintf("pi_%s_0", mangle(ct.Name))
		fc.eng.GDecl(uf, fmt.Sprintf("(declare-fun %s (%s) %s)", uf, strings.Join(sorts, " "), u.SortOf(rty)))
		return App(u.SortOf(rty), uf, as...), rty
	}
	if rt, ok := specLibFuncs[name]; ok {
		// deterministic library function: the same uninterpreted function the code model uses
		var as []Term
		var sorts []string
		for i := range x.Args {
			t, _ := arg(i)
			as = append(as, t)
			sorts = append(sorts, string(t.Sort))
		}
		uf := fmt.Sprintf("uf_%s_0", mangle(name))
		fc.eng.GDecl(uf, fmt.Sprintf("(declare-fun %s (%s) %s)", uf, strings.Join(sorts, " "), u.SortOf(rt)))
		return App(u.SortOf(rt), uf, as...), rt
	}
	if b, ok := specBuiltins[name]; ok {
		fc.eng.declBuiltin(name)
		var as []Term
		for i := range b.args {
			t, _ := arg(i)
			as = append(as, t)
		}
		return App(b.res, b.smt, as...), b.rty
	}
	// spec function of the scope's package, or qualified
	var sf *SpecFunc
	if sc.pkg != nil {
		sf = fc.eng.SpecFuncs[sc.pkg.Path()+"."+name]
	}
	if sf == nil && strings.Contains(name, ".") {
		parts := strings.SplitN(name, ".", 2)
		if ip := sc.importedPkg(parts[0]); ip != nil {
			sf = fc.eng.SpecFuncs[ip.Path()+"."+parts[1]]
		}
	}
	if sf == nil {
		// any package (spec functions of a callee's package used from a caller)
		for k, v := range fc.eng.SpecFuncs {
			if strings.HasSuffix(k, "."+name) {
				sf = v
			}
		}
	}
	if sf == nil {
		if t, ty, ok := sc.pureCall(name, x); ok {
			return t, ty
		}
		sc.fail("unknown function %s", name)
	}
	if sf.Macro {
		if sf.Body == nil || len(x.Args) != len(sf.Params) {
			sc.fail("macro %s: needs a body and %d arguments", sf.Name, len(sf.Params))
		}
		sub := map[string]Expr{}
		for i, q := range sf.Params {
			sub[q.Name] = x.Args[i]
		}
		return sc.tr(substExpr(sf.Body, sub))
	}
	smtName, rty := fc.eng.declareSpecFunc(fc, sf)
	var as []Term
	for i := range sf.Params {
		t, ty := arg(i)
		pty := fc.lookupTypeNameIn(sf.Params[i].Type, sf.PkgPath)
		if pty != nil {
			if _, isIface := pty.Underlying().(*types.Interface); isIface && !isUntyped(ty) {
				if _, already := ty.Underlying().(*types.Interface); !already {
					t = fc.box(ty, t)
				}
			}
			if u.SortOf(pty) == SReal && t.Sort == SInt {
				t = T(SReal, "(to_real %s)", t.S)
			}
		}
		as = append(as, t)
	}
	return App(u.SortOf(rty), smtName, as...), rty
}

func exprTypeName(e Expr) string {
	switch x := e.(type) {
	case *EIdent:
		return x.Name
	case *ESel:
		return exprTypeName(x.X) + "." + x.Name
	case *EUnary:
		if x.Op == "*" {
			return "*" + exprTypeName(x.X)
		}
	}
	return e.String()
}

var specFuncDeclared = map[*SpecFunc]types.Type{}

// declareSpecFunc declares (or defines) a contract-level function.
func (e *Engine) declareSpecFunc(fc *FnCtx, sf *SpecFunc) (string, types.Type) {
	p := e.Pkgs[sf.PkgPath]
	pn := "x"
	if p != nil {
		pn = p.Types.Name()
	}
	smtName := "sf_" + mangle(pn+"_"+sf.Name)
	if rty, ok := specFuncDeclared[sf]; ok {
		return smtName, rty
	}
	rty := fc.lookupTypeNameIn(sf.Result, sf.PkgPath)
	if rty == nil {
		fc.fail("spec func %s: unknown result type %s", sf.Name, sf.Result)
	}
	specFuncDeclared[sf] = rty
	var ps []string
	var psorts []string
	frame := map[string]specVal{}
	for _, q := range sf.Params {
		ty := fc.lookupTypeNameIn(q.Type, sf.PkgPath)
		if ty == nil {
			fc.fail("spec func %s: unknown type %s", sf.Name, q.Type)
		}
		n := "a_" + mangle(q.Name)
		ps = append(ps, fmt.Sprintf("(%s %s)", n, e.U.SortOf(ty)))
		psorts = append(psorts, string(e.U.SortOf(ty)))
		frame[q.Name] = specVal{t: Term{n, e.U.SortOf(ty)}, ty: ty}
	}
	rs := e.U.SortOf(rty)
	if sf.Body == nil {
		e.GDecl(smtName, fmt.Sprintf("(declare-fun %s (%s) %s)", smtName, strings.Join(psorts, " "), rs))
		return smtName, rty
	}
	sc := &Scope{fc: fc, mode: "global", env: &Env{inc: map[string]string{}}, bound: []map[string]specVal{frame}}
	if p != nil {
		sc.pkg = p.Types
	}
	body, bty := sc.tr(sf.Body)
	if body.Sort != rs {
		if rs == SReal && body.Sort == SInt {
			body = T(SReal, "(to_real %s)", body.S)
		} else {
			fc.fail("spec func %s: body has sort %s, declared %s (%v)", sf.Name, body.Sort, rs, bty)
		}
	}
	e.GDecl(smtName, fmt.Sprintf("(define-fun %s (%s) %s %s)", smtName, strings.Join(ps, " "), rs, body.S))
	return smtName, rty
}

// pureUF declares the uninterpreted function standing for the i-th result of
// a Go function whose contract is flagged "pure".
func (e *Engine) pureUF(fn *ssa.Function, i int) (string, Sort) {
	name := fmt.Sprintf("pf_%s_%d", mangle(shortName(fn)), i)
	var sorts []string
	for _, p := range fn.Params {
		sorts = append(sorts, string(e.U.SortOf(p.Type())))
	}
	rs := e.U.SortOf(fn.Signature.Results().At(i).Type())
	e.GDecl(name, fmt.Sprintf("(declare-fun %s (%s) %s)", name, strings.Join(sorts, " "), rs))
	return name, rs
}

// pureCall: a Go function with a "pure" contract used inside a contract.
func (sc *Scope) pureCall(name string, x *ECall) (Term, types.Type, bool) {
	fc := sc.fc
	if sc.pkg == nil {
		return Term{}, nil, false
	}
	parts := strings.Split(name, ".")
	pkg := sc.pkg
	if len(parts) > 1 {
		if ip := sc.importedPkg(parts[0]); ip != nil {
			pkg = ip
			parts = parts[1:]
		}
	}
	var obj *types.Func
	switch len(parts) {
	case 1:
		obj, _ = pkg.Scope().Lookup(parts[0]).(*types.Func)
	case 2:
		if tn, ok := pkg.Scope().Lookup(parts[0]).(*types.TypeName); ok {
			o, _, _ := types.LookupFieldOrMethod(types.NewPointer(tn.Type()), true, pkg, parts[1])
			obj, _ = o.(*types.Func)
		}
	}
	if obj == nil {
		return Term{}, nil, false
	}
	fn := fc.eng.Prog.FuncValue(obj)
	if fn == nil {
		return Term{}, nil, false
	}
	ct := fc.eng.ContractFor(fn)
	if ct == nil || !ct.Flags["pure"] {
		sc.fail("%s is used in a contract but its own contract is not flagged pure", name)
	}
	if len(x.Args) != len(fn.Params) || fn.Signature.Results().Len() != 1 {
		sc.fail("%s: wrong number of arguments or results for a pure call", name)
	}
	var as []Term
	for _, a := range x.Args {
		t, _ := sc.tr(a)
		as = append(as, t)
	}
	uf, rs := fc.eng.pureUF(fn, 0)
	return App(rs, uf, as...), fn.Signature.Results().At(0).Type(), true
}

// substExpr replaces identifiers by expressions (macro expansion).
func substExpr(e Expr, sub map[string]Expr) Expr {
	switch x := e.(type) {
	case *EIdent:
		if r, ok := sub[x.Name]; ok {
			return r
		}
		return x
	case *EUnary:
		return &EUnary{x.Op, substExpr(x.X, sub)}
	case *EBinary:
		return &EBinary{x.Op, substExpr(x.X, sub), substExpr(x.Y, sub)}
	case *ESel:
		return &ESel{substExpr(x.X, sub), x.Name}
	case *EIndex:
		return &EIndex{substExpr(x.X, sub), substExpr(x.I, sub)}
	case *ESlice:
		n := &ESlice{X: substExpr(x.X, sub)}
		if x.Lo != nil {
			n.Lo = substExpr(x.Lo, sub)
		}
		if x.Hi != nil {
			n.Hi = substExpr(x.Hi, sub)
		}
		return n
	case *ECall:
		n := &ECall{Fun: x.Fun}
		if _, isSel := x.Fun.(*ESel); isSel {
			n.Fun = substExpr(x.Fun, sub)
		}
		for _, a := range x.Args {
			n.Args = append(n.Args, substExpr(a, sub))
		}
		return n
	case *EOld:
		return &EOld{substExpr(x.X, sub)}
	case *ECond:
		return &ECond{substExpr(x.C, sub), substExpr(x.A, sub), substExpr(x.B, sub)}
	case *EQuant:
		inner := map[string]Expr{}
		for k, v := range sub {
			inner[k] = v
		}
		for _, v := range x.Vars {
			delete(inner, v.Name)
		}
		n := &EQuant{Forall: x.Forall, Vars: x.Vars, Body: substExpr(x.Body, inner)}
		for _, p := range x.Pats {
			var np []Expr
			for _, pe := range p {
				np = append(np, substExpr(pe, inner))
			}
			n.Pats = append(n.Pats, np)
		}
		return n
	}
	return e
}

// ifaceMethodResult: the (single) result type of "Iface.Method" looked up in
// the scope's package.
func (sc *Scope) ifaceMethodResult(name string) types.Type {
	parts := strings.Split(name, ".")
	if len(parts) < 2 || sc.pkg == nil {
		return nil
	}
	pkg := sc.pkg
	if len(parts) == 3 {
		if ip := sc.importedPkg(parts[0]); ip != nil {
			pkg = ip
		}
		parts = parts[1:]
	}
	tn, ok := pkg.Scope().Lookup(parts[0]).(*types.TypeName)
	if !ok {
		return nil
	}
	o, _, _ := types.LookupFieldOrMethod(tn.Type(), true, pkg, parts[1])
	f, ok := o.(*types.Func)
	if !ok {
		return nil
	}
	res := f.Type().(*types.Signature).Results()
	if res.Len() != 1 {
		return nil
	}
	return res.At(0).Type()
}
