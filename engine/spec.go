package main

// Contract language: parser for the //@ comment DSL and its expressions.

import (
	"fmt"
	"os"
	"regexp"
	"strconv"
	"strings"
)

// ---------------------------------------------------------------- expressions

type Expr interface{ String() string }

type (
	EIdent  struct{ Name string }
	EInt    struct{ Val string }
	EFloat  struct{ Val string }
	EStr    struct{ Val string }
	EBool   struct{ Val bool }
	ENil    struct{}
	EUnary  struct {
		Op string
		X  Expr
	}
	EBinary struct {
		Op   string
		X, Y Expr
	}
	ESel struct {
		X    Expr
		Name string
	}
	EIndex struct{ X, I Expr }
	ESlice struct{ X, Lo, Hi Expr }
	ECall  struct {
		Fun  Expr
		Args []Expr
	}
	EOld   struct{ X Expr }
	EQuant struct {
		Forall bool
		Vars   []QVar
		Body   Expr
		Pats   [][]Expr
	}
	ECond struct{ C, A, B Expr } // ite(c,a,b)
)

type QVar struct {
	Name string
	Type string
}

var reChanInv = regexp.MustCompile(`^chan\s+([A-Za-z_][A-Za-z_0-9]*)\s*:\s*(.+)$`)

func (e *EIdent) String() string { return e.Name }
func (e *EInt) String() string   { return e.Val }
func (e *EFloat) String() string { return e.Val }
func (e *EStr) String() string   { return strconv.Quote(e.Val) }
func (e *EBool) String() string  { return fmt.Sprint(e.Val) }
func (e *ENil) String() string   { return "nil" }
func (e *EUnary) String() string { return e.Op + e.X.String() }
func (e *EBinary) String() string {
	return "(" + e.X.String() + " " + e.Op + " " + e.Y.String() + ")"
}
func (e *ESel) String() string   { return e.X.String() + "." + e.Name }
func (e *EIndex) String() string { return e.X.String() + "[" + e.I.String() + "]" }
func (e *ESlice) String() string {
	lo, hi := "", ""
	if e.Lo != nil {
		lo = e.Lo.String()
	}
	if e.Hi != nil {
		hi = e.Hi.String()
	}
	return e.X.String() + "[" + lo + ":" + hi + "]"
}
func (e *ECall) String() string {
	var as []string
	for _, a := range e.Args {
		as = append(as, a.String())
	}
	return e.Fun.String() + "(" + strings.Join(as, ", ") + ")"
}
func (e *EOld) String() string { return "old(" + e.X.String() + ")" }
func (e *EQuant) String() string {
	q := "exists"
	if e.Forall {
		q = "forall"
	}
	var vs []string
	for _, v := range e.Vars {
		vs = append(vs, v.Name+" "+v.Type)
	}
	return "(" + q + " " + strings.Join(vs, ", ") + " :: " + e.Body.String() + ")"
}
func (e *ECond) String() string {
	return "ite(" + e.C.String() + ", " + e.A.String() + ", " + e.B.String() + ")"
}

type stoken struct {
	kind string // ident int float str op eof
	val  string
	pos  int
}

type lexer struct {
	src  string
	toks []stoken
}

var opList = []string{"==>", "<==>", "::", "==", "!=", "<=", ">=", "&&", "||", "<<", ">>", "&^", "+", "-", "*", "/", "%", "<", ">", "!", "(", ")", "[", "]", ".", ",", ":", "&", "|", "^", "{", "}"}

func lex(src string) ([]stoken, error) {
	var toks []stoken
	i := 0
	for i < len(src) {
		c := src[i]
		switch {
		case c == ' ' || c == '\t' || c == '\n' || c == '\r':
			i++
		case c == '"':
			j := i + 1
			for j < len(src) && src[j] != '"' {
				if src[j] == '\\' {
					j++
				}
				j++
			}
			if j >= len(src) {
				return nil, fmt.Errorf("unterminated string at %d", i)
			}
			s, err := strconv.Unquote(src[i : j+1])
			if err != nil {
				return nil, fmt.Errorf("bad string %s: %v", src[i:j+1], err)
			}
			toks = append(toks, stoken{"str", s, i})
			i = j + 1
		case c == '`':
			j := strings.IndexByte(src[i+1:], '`')
			if j < 0 {
				return nil, fmt.Errorf("unterminated raw string at %d", i)
			}
			toks = append(toks, stoken{"str", src[i+1 : i+1+j], i})
			i = i + j + 2
		case c >= '0' && c <= '9':
			j := i
			isFloat := false
			if strings.HasPrefix(src[i:], "0x") {
				j = i + 2
				for j < len(src) && strings.ContainsRune("0123456789abcdefABCDEF", rune(src[j])) {
					j++
				}
				n, err := strconv.ParseUint(src[i+2:j], 16, 64)
				if err != nil {
					return nil, err
				}
				toks = append(toks, stoken{"int", strconv.FormatUint(n, 10), i})
				i = j
				continue
			}
			for j < len(src) && (src[j] >= '0' && src[j] <= '9' || src[j] == '_') {
				j++
			}
			if j < len(src) && src[j] == '.' && j+1 < len(src) && src[j+1] >= '0' && src[j+1] <= '9' {
				isFloat = true
				j++
				for j < len(src) && src[j] >= '0' && src[j] <= '9' {
					j++
				}
			}
			v := strings.ReplaceAll(src[i:j], "_", "")
			if isFloat {
				toks = append(toks, stoken{"float", v, i})
			} else {
				toks = append(toks, stoken{"int", v, i})
			}
			i = j
		case c == '_' || c == '$' || c >= 'a' && c <= 'z' || c >= 'A' && c <= 'Z':
			j := i + 1
			for j < len(src) && (src[j] == '_' || src[j] == '$' || src[j] >= 'a' && src[j] <= 'z' || src[j] >= 'A' && src[j] <= 'Z' || src[j] >= '0' && src[j] <= '9') {
				j++
			}
			toks = append(toks, stoken{"ident", src[i:j], i})
			i = j
		default:
			matched := false
			for _, op := range opList {
				if strings.HasPrefix(src[i:], op) {
					toks = append(toks, stoken{"op", op, i})
					i += len(op)
					matched = true
					break
				}
			}
			if !matched {
				return nil, fmt.Errorf("unexpected character %q at %d in %q", c, i, src)
			}
		}
	}
	toks = append(toks, stoken{"eof", "", len(src)})
	return toks, nil
}

type parser struct {
	toks []stoken
	p    int
	src  string
}

func ParseExpr(src string) (e Expr, err error) {
	toks, err := lex(src)
	if err != nil {
		return nil, err
	}
	p := &parser{toks: toks, src: src}
	defer func() {
		if r := recover(); r != nil {
			if pe, ok := r.(parseErr); ok {
				err = fmt.Errorf("%s in %q", string(pe), src)
				return
			}
			panic(r)
		}
	}()
	e = p.expr()
	if p.peek().kind != "eof" {
		p.fail("unexpected %q", p.peek().val)
	}
	return e, nil
}

type parseErr string

func (p *parser) fail(f string, a ...interface{}) {
	panic(parseErr(fmt.Sprintf("parse error at %d: ", p.peek().pos) + fmt.Sprintf(f, a...)))
}
func (p *parser) peek() stoken { return p.toks[p.p] }
func (p *parser) next() stoken { t := p.toks[p.p]; p.p++; return t }
func (p *parser) isOp(v string) bool {
	t := p.peek()
	return t.kind == "op" && t.val == v
}
func (p *parser) accept(v string) bool {
	if p.isOp(v) {
		p.p++
		return true
	}
	return false
}
func (p *parser) expect(v string) {
	if !p.accept(v) {
		p.fail("expected %q, got %q", v, p.peek().val)
	}
}

func (p *parser) expr() Expr {
	t := p.peek()
	if t.kind == "ident" && (t.val == "forall" || t.val == "exists") {
		p.next()
		q := &EQuant{Forall: t.val == "forall"}
		for {
			var names []string
			names = append(names, p.ident())
			for p.accept(",") {
				names = append(names, p.ident())
			}
			ty := p.typeName()
			for _, n := range names {
				q.Vars = append(q.Vars, QVar{n, ty})
			}
			if !p.accept(",") {
				break
			}
		}
		p.expect("::")
		for p.isOp("{") {
			p.next()
			var pat []Expr
			pat = append(pat, p.expr())
			for p.accept(",") {
				pat = append(pat, p.expr())
			}
			p.expect("}")
			q.Pats = append(q.Pats, pat)
		}
		q.Body = p.expr()
		return q
	}
	return p.iff()
}

func (p *parser) ident() string {
	t := p.next()
	if t.kind != "ident" {
		p.p--
		p.fail("expected identifier, got %q", t.val)
	}
	return t.val
}

func (p *parser) typeName() string {
	s := ""
	for p.accept("*") {
		s += "*"
	}
	if p.accept("[") {
		p.expect("]")
		return s + "[]" + p.typeName()
	}
	id := p.ident()
	if (id == "$dom" || id == "$val" || id == "map" || id == "$row") && p.accept("[") {
		k := p.typeName()
		p.expect("]")
		if id == "$dom" || id == "$row" {
			return s + id + "[" + k + "]"
		}
		return s + id + "[" + k + "]" + p.typeName()
	}
	s += id
	if p.accept(".") {
		s += "." + p.ident()
	}
	return s
}

func (p *parser) iff() Expr {
	x := p.impl()
	for p.accept("<==>") {
		y := p.impl()
		x = &EBinary{"<==>", x, y}
	}
	return x
}

func (p *parser) impl() Expr {
	x := p.or()
	if p.accept("==>") {
		y := p.implRHS()
		return &EBinary{"==>", x, y}
	}
	return x
}

func (p *parser) implRHS() Expr {
	t := p.peek()
	if t.kind == "ident" && (t.val == "forall" || t.val == "exists") {
		return p.expr()
	}
	return p.impl()
}

func (p *parser) or() Expr {
	x := p.and()
	for p.accept("||") {
		x = &EBinary{"||", x, p.and()}
	}
	return x
}

func (p *parser) and() Expr {
	x := p.cmp()
	for p.accept("&&") {
		x = &EBinary{"&&", x, p.cmp()}
	}
	return x
}

func (p *parser) cmp() Expr {
	x := p.add()
	for _, op := range []string{"==", "!=", "<=", ">=", "<", ">"} {
		if p.accept(op) {
			return &EBinary{op, x, p.add()}
		}
	}
	return x
}

func (p *parser) add() Expr {
	x := p.mul()
	for {
		switch {
		case p.accept("+"):
			x = &EBinary{"+", x, p.mul()}
		case p.accept("-"):
			x = &EBinary{"-", x, p.mul()}
		case p.accept("|"):
			x = &EBinary{"|", x, p.mul()}
		default:
			return x
		}
	}
}

func (p *parser) mul() Expr {
	x := p.unary()
	for {
		switch {
		case p.accept("*"):
			x = &EBinary{"*", x, p.unary()}
		case p.accept("/"):
			x = &EBinary{"/", x, p.unary()}
		case p.accept("%"):
			x = &EBinary{"%", x, p.unary()}
		case p.accept("&"):
			x = &EBinary{"&", x, p.unary()}
		case p.accept("<<"):
			x = &EBinary{"<<", x, p.unary()}
		case p.accept(">>"):
			x = &EBinary{">>", x, p.unary()}
		default:
			return x
		}
	}
}

func (p *parser) unary() Expr {
	if p.accept("!") {
		return &EUnary{"!", p.unary()}
	}
	if p.accept("-") {
		return &EUnary{"-", p.unary()}
	}
	if p.accept("*") {
		return &EUnary{"*", p.unary()}
	}
	return p.postfix()
}

func (p *parser) postfix() Expr {
	x := p.primary()
	for {
		switch {
		case p.accept("."):
			x = &ESel{x, p.ident()}
		case p.accept("["):
			if p.accept(":") {
				var hi Expr
				if !p.isOp("]") {
					hi = p.expr()
				}
				p.expect("]")
				x = &ESlice{x, nil, hi}
				continue
			}
			i := p.expr()
			if p.accept(":") {
				var hi Expr
				if !p.isOp("]") {
					hi = p.expr()
				}
				p.expect("]")
				x = &ESlice{x, i, hi}
				continue
			}
			p.expect("]")
			x = &EIndex{x, i}
		case p.accept("("):
			var args []Expr
			if !p.isOp(")") {
				args = append(args, p.expr())
				for p.accept(",") {
					args = append(args, p.expr())
				}
			}
			p.expect(")")
			if id, ok := x.(*EIdent); ok && id.Name == "old" && len(args) == 1 {
				x = &EOld{args[0]}
			} else if ok && id.Name == "ite" && len(args) == 3 {
				x = &ECond{args[0], args[1], args[2]}
			} else {
				x = &ECall{x, args}
			}
		default:
			return x
		}
	}
}

func (p *parser) primary() Expr {
	t := p.next()
	switch t.kind {
	case "int":
		return &EInt{t.val}
	case "float":
		return &EFloat{t.val}
	case "str":
		return &EStr{t.val}
	case "ident":
		switch t.val {
		case "true":
			return &EBool{true}
		case "false":
			return &EBool{false}
		case "nil":
			return &ENil{}
		}
		return &EIdent{t.val}
	case "op":
		if t.val == "(" {
			e := p.expr()
			p.expect(")")
			return e
		}
	}
	p.p--
	p.fail("unexpected %q", t.val)
	return nil
}

// ------------------------------------------------------------------ contracts

type Clause struct {
	Kind string // requires ensures invariant decreases
	Src  string
	E    Expr
	Line int
	File string
	N    int // ordinal among same kind within its owner
}

type LoopSpec struct {
	Exhaustive bool // no exit other than the loop condition becoming false
	N          int
	Invariants []*Clause
	Decreases  *Clause
}

type CallSpec struct {
	Callee   string // display name e.g. "resp.Write", "Volume.Get"
	Ord      int    // 1-based ordinal; 0 = all sites
	Requires []*Clause
	Ensures  []*Clause // assumed
	Sets     []GhostSet
	Matched  int
	Pure     bool // treat the callee as side-effect free at this site
}

type GhostSet struct {
	Name string
	E    Expr
	Src  string
}

type GhostVar struct {
	Name string
	Type string
	Init Expr
}

type FuncContract struct {
	Name       string // normalized: Recv.Method, Func, Outer$1
	PkgDir     string
	PkgPath    string
	File       string
	Line       int
	Props      []string
	Flags      map[string]bool
	Safety     map[string]bool
	Requires   []*Clause
	Ensures    []*Clause
	Loops      map[int]*LoopSpec
	Calls      []*CallSpec
	Ghosts     []*GhostVar
	Modifies   []string // heap map patterns; nil = unspecified (=> computed / all)
	HasMod     bool
	Assumed    bool   // iface/extern: contract is an assumption
	Kind       string // func | iface | extern
	Asserts    []*AtAssert
	SyncGo      [][2]int // {go ordinal, select ordinal}: the goroutine has finished when the select returns
	ReplayHints []string // extra candidate strings for the bounded replay search
	ReplayChecks []*Clause // executable oracle clauses used only by replay tests (never proof obligations)
	ChanInvs   []*ChanInv // channel invariants of local channels (chaninv.go)
	OnlyCalls  []string // if set: every call with possible effects must be to one of these callees
	LocalsLine string
}

// AtAssert: an assertion or ghost update anchored at a program point:
//   at assign v#k: set g = e | assert e      (after the k-th store to local v)
//   at loop N back: assert e                 (on every back edge of loop N)
//   at send#k: assert e                      (before the k-th channel send; $v = value sent)
type AtAssert struct {
	Anchor  string // "assign", "loopback", "send"
	Var     string
	Ord     int
	Cl      *Clause  // assert
	Set     *GhostSet
	Matched int
}

type SpecFunc struct {
	Macro   bool
	Name    string
	Params  []QVar
	Result  string
	Body    Expr // optional definition
	Src     string
	PkgPath string
	File    string
	Line    int
}

type Axiom struct {
	Cl      *Clause
	PkgPath string
}

type Lemma struct {
	Name    string
	Cl      *Clause
	Props   []string
	PkgPath string
}

type ContractFile struct {
	Path    string
	PkgDir  string
	Funcs   []*FuncContract
	Specs   []*SpecFunc
	Axioms  []*Axiom
	Lemmas  []*Lemma
	Aliases map[string]string
	Pure    []string
}

var reFuncHdr = regexp.MustCompile(`^(func|iface|extern)\s+(\S+)(.*)$`)
var reLoop = regexp.MustCompile(`^loop\s+(\d+)\s*:\s*(invariant|decreases|exhaustive)\b\s*(.*)$`)
var reCalls = regexp.MustCompile(`^calls\s+(\S+?)#(\d+|\*)\s*:\s*(requires|ensures|set|pure)\b\s*(.*)$`)
var reAt = regexp.MustCompile(`^at\s+(assign\s+(\.?\w+)#(\d+)|loop\s+(\d+)\s+(?:back|exit)|send#(\d+|\*)|select#(\d+))\s*:\s*(assert|set)\s+(.*)$`)
var reSpecFunc = regexp.MustCompile(`^spec\s+(?:func|macro)\s+(\w+)\s*\(([^)]*)\)\s*([\w.\[\]*$]+)\s*(?:=\s*(.*))?$`)
var reGhost = regexp.MustCompile(`^ghost\s+(\w+)\s+([\w.\[\]*$]+)\s*=\s*(.*)$`)
var reSet = regexp.MustCompile(`^(\w+)\s*=\s*(.*)$`)

// ParseContractFile reads the //@ lines of one verif_contracts.go file.
func ParseContractFile(path string) (*ContractFile, error) {
	data, err := os.ReadFile(path)
	if err != nil {
		return nil, err
	}
	cf := &ContractFile{Path: path, Aliases: map[string]string{}}
	type rawClause struct {
		text string
		line int
	}
	// First join continuation lines.  A //@ line starts a new clause if its
	// first word is a keyword; otherwise it continues the previous clause.
	keywords := map[string]bool{"func": true, "iface": true, "extern": true, "requires": true, "ensures": true, "loop": true,
		"calls": true, "spec": true, "axiom": true, "lemma": true, "ghost": true, "modifies": true, "alias": true, "pure": true, "locals": true, "end": true, "at": true, "only": true, "replay": true, "sync": true, "chan": true}
	var raws []rawClause
	for i, line := range strings.Split(string(data), "\n") {
		tl := strings.TrimSpace(line)
		if !strings.HasPrefix(tl, "//@") {
			continue
		}
		body := strings.TrimSpace(tl[3:])
		if body == "" {
			continue
		}
		if strings.HasPrefix(body, "#") { // comment inside contract block
			continue
		}
		first := body
		if j := strings.IndexAny(body, " \t:("); j >= 0 {
			first = body[:j]
		}
		if keywords[first] || len(raws) == 0 {
			raws = append(raws, rawClause{body, i + 1})
		} else {
			raws[len(raws)-1].text += " " + body
		}
	}
	var cur *FuncContract
	mk := func(kind, src string, line int) (*Clause, error) {
		e, err := ParseExpr(src)
		if err != nil {
			return nil, fmt.Errorf("%s:%d: %v", path, line, err)
		}
		return &Clause{Kind: kind, Src: src, E: e, Line: line, File: path}, nil
	}
	for _, rc := range raws {
		body := rc.text
		switch {
		case reFuncHdr.MatchString(body):
			m := reFuncHdr.FindStringSubmatch(body)
			cur = &FuncContract{Name: m[2], File: path, Line: rc.line, Flags: map[string]bool{}, Safety: map[string]bool{}, Loops: map[int]*LoopSpec{}, Kind: m[1]}
			cur.Assumed = m[1] != "func"
			rest := strings.Fields(m[3])
			for i := 0; i < len(rest); i++ {
				switch rest[i] {
				case "property":
					if i+1 < len(rest) {
						cur.Props = strings.Split(rest[i+1], ",")
						i++
					}
				case "arith":
					if i+1 < len(rest) && rest[i+1] == "checked" {
						cur.Flags["arith"] = true
						i++
					}
				case "safety":
					if i+1 < len(rest) {
						for _, s := range strings.Split(rest[i+1], ",") {
							cur.Safety[s] = true
						}
						i++
					}
				default:
					cur.Flags[rest[i]] = true
				}
			}
			cf.Funcs = append(cf.Funcs, cur)
		case strings.HasPrefix(body, "requires ") || strings.HasPrefix(body, "ensures "):
			if cur == nil {
				return nil, fmt.Errorf("%s:%d: clause outside func", path, rc.line)
			}
			kind := strings.Fields(body)[0]
			cl, err := mk(kind, strings.TrimSpace(body[len(kind):]), rc.line)
			if err != nil {
				return nil, err
			}
			if kind == "requires" {
				cl.N = len(cur.Requires) + 1
				cur.Requires = append(cur.Requires, cl)
			} else {
				cl.N = len(cur.Ensures) + 1
				cur.Ensures = append(cur.Ensures, cl)
			}
		case reLoop.MatchString(body):
			if cur == nil {
				return nil, fmt.Errorf("%s:%d: clause outside func", path, rc.line)
			}
			m := reLoop.FindStringSubmatch(body)
			n, _ := strconv.Atoi(m[1])
			ls := cur.Loops[n]
			if ls == nil {
				ls = &LoopSpec{N: n}
				cur.Loops[n] = ls
			}
			if m[2] == "exhaustive" {
				ls.Exhaustive = true
				continue
			}
			cl, err := mk(m[2], m[3], rc.line)
			if err != nil {
				return nil, err
			}
			if m[2] == "invariant" {
				cl.N = len(ls.Invariants) + 1
				ls.Invariants = append(ls.Invariants, cl)
			} else {
				ls.Decreases = cl
			}
		case reCalls.MatchString(body):
			if cur == nil {
				return nil, fmt.Errorf("%s:%d: clause outside func", path, rc.line)
			}
			m := reCalls.FindStringSubmatch(body)
			ord := 0
			if m[2] != "*" {
				ord, _ = strconv.Atoi(m[2])
			}
			var cs *CallSpec
			for _, c := range cur.Calls {
				if c.Callee == m[1] && c.Ord == ord {
					cs = c
				}
			}
			if cs == nil {
				cs = &CallSpec{Callee: m[1], Ord: ord}
				cur.Calls = append(cur.Calls, cs)
			}
			switch m[3] {
			case "pure":
				cs.Pure = true
			case "set":
				sm := reSet.FindStringSubmatch(m[4])
				if sm == nil {
					return nil, fmt.Errorf("%s:%d: bad set clause", path, rc.line)
				}
				e, err := ParseExpr(sm[2])
				if err != nil {
					return nil, fmt.Errorf("%s:%d: %v", path, rc.line, err)
				}
				cs.Sets = append(cs.Sets, GhostSet{sm[1], e, sm[2]})
			default:
				cl, err := mk(m[3], m[4], rc.line)
				if err != nil {
					return nil, err
				}
				if m[3] == "requires" {
					cl.N = len(cs.Requires) + 1
					cs.Requires = append(cs.Requires, cl)
				} else {
					cl.N = len(cs.Ensures) + 1
					cs.Ensures = append(cs.Ensures, cl)
				}
			}
		case reAt.MatchString(body):
			if cur == nil {
				return nil, fmt.Errorf("%s:%d: clause outside func", path, rc.line)
			}
			m := reAt.FindStringSubmatch(body)
			aa := &AtAssert{}
			switch {
			case m[2] != "":
				aa.Anchor, aa.Var = "assign", m[2]
				aa.Ord, _ = strconv.Atoi(m[3])
			case m[4] != "":
				aa.Anchor = "loopback"
				if strings.Contains(m[1], "exit") {
					aa.Anchor = "loopexit"
				}
				aa.Ord, _ = strconv.Atoi(m[4])
			case m[6] != "":
				aa.Anchor = "select"
				aa.Ord, _ = strconv.Atoi(m[6])
			default:
				aa.Anchor = "send"
				if m[5] == "*" {
					aa.Ord = -1 // every send of the function
				} else {
					aa.Ord, _ = strconv.Atoi(m[5])
				}
			}
			if m[7] == "set" {
				sm := reSet.FindStringSubmatch(m[8])
				if sm == nil {
					return nil, fmt.Errorf("%s:%d: bad set clause", path, rc.line)
				}
				e, err := ParseExpr(sm[2])
				if err != nil {
					return nil, fmt.Errorf("%s:%d: %v", path, rc.line, err)
				}
				aa.Set = &GhostSet{sm[1], e, sm[2]}
			} else {
				cl, err := mk("assert", m[8], rc.line)
				if err != nil {
					return nil, err
				}
				n := 0
				for _, o := range cur.Asserts {
					if o.Cl != nil {
						n++
					}
				}
				cl.N = n + 1
				aa.Cl = cl
			}
			cur.Asserts = append(cur.Asserts, aa)
		case reGhost.MatchString(body):
			if cur == nil {
				return nil, fmt.Errorf("%s:%d: ghost outside func", path, rc.line)
			}
			m := reGhost.FindStringSubmatch(body)
			e, err := ParseExpr(m[3])
			if err != nil {
				return nil, fmt.Errorf("%s:%d: %v", path, rc.line, err)
			}
			cur.Ghosts = append(cur.Ghosts, &GhostVar{m[1], m[2], e})
		case strings.HasPrefix(body, "modifies"):
			if cur == nil {
				return nil, fmt.Errorf("%s:%d: modifies outside func", path, rc.line)
			}
			cur.HasMod = true
			for _, f := range splitTopLevel(body[len("modifies"):]) {
				if f != "nothing" {
					cur.Modifies = append(cur.Modifies, f)
				}
			}
		case reChanInv.MatchString(body):
			if cur == nil {
				return nil, fmt.Errorf("%s:%d: clause outside func", path, rc.line)
			}
			m := reChanInv.FindStringSubmatch(body)
			cl, err := mk("chaninv", strings.TrimSpace(m[2]), rc.line)
			if err != nil {
				return nil, err
			}
			cur.ChanInvs = append(cur.ChanInvs, &ChanInv{Name: m[1], Cl: cl})
		case strings.HasPrefix(body, "sync go#"):
			if cur == nil {
				return nil, fmt.Errorf("%s:%d: clause outside func", path, rc.line)
			}
			var g, sl int
			if _, err := fmt.Sscanf(body, "sync go#%d at select#%d", &g, &sl); err != nil {
				return nil, fmt.Errorf("%s:%d: bad sync clause", path, rc.line)
			}
			cur.SyncGo = append(cur.SyncGo, [2]int{g, sl})
		case strings.HasPrefix(body, "replay check"):
			if cur == nil {
				return nil, fmt.Errorf("%s:%d: clause outside func", path, rc.line)
			}
			cl, err := mk("replay-check", strings.TrimSpace(body[len("replay check"):]), rc.line)
			if err != nil {
				return nil, err
			}
			cur.ReplayChecks = append(cur.ReplayChecks, cl)
		case strings.HasPrefix(body, "replay hint"):
			if cur == nil {
				return nil, fmt.Errorf("%s:%d: clause outside func", path, rc.line)
			}
			toks, err := lex(strings.TrimSpace(body[len("replay hint"):]))
			if err != nil {
				return nil, fmt.Errorf("%s:%d: %v", path, rc.line, err)
			}
			for _, t := range toks {
				if t.kind == "str" {
					cur.ReplayHints = append(cur.ReplayHints, t.val)
				}
			}
		case strings.HasPrefix(body, "only calls"):
			if cur == nil {
				return nil, fmt.Errorf("%s:%d: clause outside func", path, rc.line)
			}
			rest := strings.TrimPrefix(strings.TrimSpace(body[len("only calls"):]), ":")
			cur.OnlyCalls = append(cur.OnlyCalls, strings.Fields(strings.ReplaceAll(rest, ",", " "))...)
		case strings.HasPrefix(body, "locals"):
			if cur != nil {
				cur.LocalsLine = body
			}
		case reSpecFunc.MatchString(body):
			m := reSpecFunc.FindStringSubmatch(body)
			sf := &SpecFunc{Name: m[1], Result: m[3], Src: body, File: path, Line: rc.line, Macro: strings.HasPrefix(body, "spec macro")}
			if strings.TrimSpace(m[2]) != "" {
				// params: "a, b int, c string"
				var pending []string
				for _, part := range strings.Split(m[2], ",") {
					fs := strings.Fields(part)
					switch len(fs) {
					case 1:
						pending = append(pending, fs[0])
					case 2:
						pending = append(pending, fs[0])
						for _, n := range pending {
							sf.Params = append(sf.Params, QVar{n, fs[1]})
						}
						pending = nil
					default:
						return nil, fmt.Errorf("%s:%d: bad spec func params", path, rc.line)
					}
				}
				if len(pending) > 0 {
					if !sf.Macro {
						return nil, fmt.Errorf("%s:%d: spec func param without type", path, rc.line)
					}
					for _, n := range pending {
						sf.Params = append(sf.Params, QVar{n, ""})
					}
				}
			}
			if m[4] != "" {
				e, err := ParseExpr(m[4])
				if err != nil {
					return nil, fmt.Errorf("%s:%d: %v", path, rc.line, err)
				}
				sf.Body = e
			}
			cf.Specs = append(cf.Specs, sf)
			cur = nil
		case strings.HasPrefix(body, "axiom "):
			cl, err := mk("axiom", body[len("axiom "):], rc.line)
			if err != nil {
				return nil, err
			}
			cf.Axioms = append(cf.Axioms, &Axiom{Cl: cl})
			cur = nil
		case strings.HasPrefix(body, "lemma "):
			rest := body[len("lemma "):]
			j := strings.Index(rest, ":")
			if j < 0 {
				return nil, fmt.Errorf("%s:%d: bad lemma", path, rc.line)
			}
			hdr := strings.Fields(rest[:j])
			lm := &Lemma{Name: hdr[0]}
			for i := 1; i+1 < len(hdr); i++ {
				if hdr[i] == "property" {
					lm.Props = strings.Split(hdr[i+1], ",")
				}
			}
			cl, err := mk("lemma", rest[j+1:], rc.line)
			if err != nil {
				return nil, err
			}
			lm.Cl = cl
			cf.Lemmas = append(cf.Lemmas, lm)
			cur = nil
		case strings.HasPrefix(body, "alias "):
			fs := strings.Fields(body)
			if len(fs) == 4 && fs[2] == "=" {
				cf.Aliases[fs[1]] = fs[3]
			}
		case strings.HasPrefix(body, "pure "):
			cf.Pure = append(cf.Pure, strings.Fields(body[5:])...)
		case body == "end":
			cur = nil
		default:
			return nil, fmt.Errorf("%s:%d: unrecognized contract line %q", path, rc.line, body)
		}
	}
	return cf, nil
}

// splitTopLevel splits at whitespace/commas that are not inside parentheses.
func splitTopLevel(s string) []string {
	var out []string
	depth := 0
	cur := ""
	for _, r := range s {
		switch {
		case r == '(':
			depth++
			cur += string(r)
		case r == ')':
			depth--
			cur += string(r)
		case (r == ' ' || r == ',' || r == '\t') && depth == 0:
			if cur != "" {
				out = append(out, cur)
				cur = ""
			}
		default:
			cur += string(r)
		}
	}
	if cur != "" {
		out = append(out, cur)
	}
	return out
}
