#!/bin/bash
# Runs the repository's baseline test command (guard off) and compares with BASELINE.json stable_pass.
export GOFLAGS=-mod=mod GOPROXY=off GOSUMDB=off GOTOOLCHAIN=local
cd /repo && go test -mod=mod -json -vet=off -count=1 -timeout 25m ./... > /tmp/baseline.json 2>/tmp/baseline.err
python3 - <<'PY'
import json
want=set(json.load(open('/root/.vp/BASELINE.json'))['stable_pass'])
res={}
for l in open('/tmp/baseline.json'):
    try: e=json.loads(l)
    except: continue
    if e.get('Action') in('pass','fail') and e.get('Test') and '/' not in e['Test']:
        res[e['Package']+'::'+e['Test']]=e['Action']
missing=[t for t in sorted(want) if res.get(t)!='pass']
print("baseline: %d/%d stable tests pass"%(len(want)-len(missing),len(want)))
for t in missing: print("  NOT PASSING:",t,res.get(t))
PY
