#!/bin/bash
# Runs every seeded change against the quick check of its property and prints a detection table.
cd /verif
for d in seeded/*/; do s=$(basename $d); prop=${s%-*}
  out=$(tools/seedtest.sh $s 2>&1); rc=$?
  if echo "$out" | grep -q "^VIOLATION"; then ob=$(echo "$out" | grep "^VIOLATION" | head -2 | sed 's/.*obligation=//' | paste -sd' '); echo "$s DETECTED $ob";
  elif echo "$out" | grep -q "patch does not apply\|error: patch failed\|refusing"; then echo "$s NOT-APPLICABLE $(echo "$out" | tail -1)";
  else echo "$s MISSED rc=$rc $(echo "$out" | tail -1)"; fi
done
