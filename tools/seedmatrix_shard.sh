#!/bin/bash
# usage: VERIF_REPO=<clone> tools/seedmatrix_shard.sh <prop> [<prop> ...]
# Like tools/seedmatrix.sh, for the seeds of the given properties only (several
# shards can run side by side, each on its own clone of the repository).
cd /verif
for p in "$@"; do
for d in seeded/$p-*/; do s=$(basename $d); prop=${s%-*}
  out=$(tools/seedtest.sh $s 2>&1); rc=$?
  if echo "$out" | grep -q "^VIOLATION"; then ob=$(echo "$out" | grep "^VIOLATION" | head -2 | sed 's/.*obligation=//' | paste -sd' '); echo "$s DETECTED $ob";
  elif echo "$out" | grep -q "patch does not apply\|error: patch failed\|refusing"; then echo "$s NOT-APPLICABLE $(echo "$out" | tail -1)";
  else echo "$s MISSED rc=$rc $(echo "$out" | tail -1)"; fi
done
done
