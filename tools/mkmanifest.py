#!/usr/bin/env python3
"""Regenerates /verif/MANIFEST.json.  Per-property texts live in props_meta.json
(key 'manifest'); the set of claimed properties is every property that has a
'manifest' entry with claimed=true."""
import json, subprocess, os
V = os.path.dirname(os.path.dirname(os.path.abspath(__file__)))
meta = json.load(open(os.path.join(V, 'props_meta.json')))
props = [json.loads(l) for l in open(os.path.join(V, 'properties.jsonl'))]
hooks = subprocess.run(['git', '-C', '/repo', 'log', '--format=%h %s'], capture_output=True, text=True).stdout.splitlines()
hook_commits = [l.split()[0] for l in hooks if l.split(' ', 1)[1].startswith('verif:')]
checks, na = [], []
for p in props:
    pid = p['id']
    m = meta.get(pid, {})
    if m.get('claimed'):
        checks.append({
            'property_id': pid,
            'quick_cmd': './check %s quick' % pid,
            'thorough_cmd': './check %s thorough' % pid,
            'evidence_file': 'evidence/%s.json' % pid,
            'replay_cmd_template': './bin/govc replay {path}',
            'engine': 'govc',
            'level_claimed': {'category': 'proof', 'text': m['level_text'], 'design_ref': m.get('design_ref', 'DESIGN.md section 4 ' + pid)},
            'level_note': m['level_note'],
            'technique': m.get('technique', 'contract-based deductive verification: requires/ensures/loop invariants on the real Go functions, weakest-precondition style VCs generated from go/ssa, discharged by z3/cvc5'),
        })
    else:
        na.append({'property_id': pid, 'reason': m.get('na_reason', 'not yet under contract (machinery for this property not built)')})
man = {
    'version': 1,
    'setup_cmd': './setup.sh',
    'hooks': {
        'guard': 'verif',
        'enable': 'go build tag: -tags verif (contract files verif_contracts.go, comment-only plus package clause)',
        'baseline_off_cmd': "cd /repo && go test -mod=mod -json -vet=off -count=1 -timeout 25m ./...",
        'source_commits': hook_commits,
        'add_only': True,
    },
    'engines': [{'name': 'govc', 'path': 'engine', 'serves_properties': [c['property_id'] for c in checks],
                 'kind_free_text': 'verification-condition generator for Go written for this task: go/packages + go/ssa (naive form) -> guarded commands -> loops cut by invariants -> passive form -> one SMT query per obligation -> portfolio z3 5.1.0 / z3 4.8.12 / cvc5 1.0.3'}],
    'checks': checks,
    'not_applicable': na,
    'notes': 'All checks are contract-based deductive verification of the real Go code in /repo (no models). Clauses of a property that no sequential contract can decide are listed per check in level_note and in evidence coverage.not_decided. Known findings: known_findings.json.',
}
json.dump(man, open(os.path.join(V, 'MANIFEST.json'), 'w'), indent=1)
print('claimed:', [c['property_id'] for c in checks])
