#!/bin/bash
# usage: tools/mut.sh <repo-relative-file> <python-replace-old> <new> -- <command...>
# applies one textual replacement (must match exactly once), runs the command, restores the file
f=/repo/$1; old=$2; new=$3; shift 4
cp $f /tmp/mut.bak.$$
python3 - "$f" "$old" "$new" <<'PY'
import sys
p,old,new=sys.argv[1:4]
s=open(p).read()
n=s.count(old)
if n!=1:
    print("MUT: pattern matches %d times"%n); sys.exit(3)
open(p,'w').write(s.replace(old,new))
PY
rc=$?
if [ $rc -eq 0 ]; then "$@"; rc=$?; fi
cp /tmp/mut.bak.$$ $f; rm -f /tmp/mut.bak.$$
exit $rc
