#!/bin/bash
# usage: tools/confirm_seed.sh <prop> <A|B>
# Confirms a seeded change in a scratch worktree: demo passes on pristine tree,
# fails with the patch, the stable baseline tests of affected packages still pass
# with the patch.  On success copies it to /verif/seeded/<prop>-<X>/.
id=$1; x=$2; src=/tmp/seed/$id/$x; wt=/tmp/cwt/$id-$x
export GOFLAGS=-mod=mod GOPROXY=off GOSUMDB=off GOTOOLCHAIN=local
[ -f $src/patch.diff ] || { echo "no patch for $id/$x"; exit 2; }
mkdir -p /tmp/cwt; git -C /repo worktree remove --force $wt 2>/dev/null; rm -rf $wt
base=$(git -C /repo rev-list --max-parents=0 HEAD)
git -C /repo worktree add -q --detach $wt $base 2>/dev/null || exit 2
pkgdir=$(python3 -c "import json;print(json.load(open('$src/meta.json'))['demo_package_dir'])")
demo=$(ls $src/*_test.go | head -1)
cp $demo $wt/$pkgdir/zz_seed_demo_test.go
tests=$(grep -o 'func Test[A-Za-z0-9_]*' $demo | awk '{print $2}' | paste -sd'|')
ov=""
case "$pkgdir" in lib/controller*) python3 -c "import json;print(json.dumps({'Replace':{'$wt/lib/controller/localdb/login_pam.go':'/verif/engine/standins/login_pam.go'}}))" > /tmp/cwt/ov-$id-$x.json; ov="-overlay /tmp/cwt/ov-$id-$x.json";; esac
run() { (cd $wt && go test $ov -vet=off -count=1 -timeout 600s -run "^($tests)\$" ./$pkgdir > /tmp/cwt/$id-$x.$1.log 2>&1); echo $?; }
r1=$(run pristine)
(cd $wt && git apply $src/patch.diff) || { echo "$id/$x: patch does not apply"; exit 2; }
r2=$(run patched)
# existing stable tests for the touched package dirs
rm $wt/$pkgdir/zz_seed_demo_test.go
touched=$(grep '^+++ b/' $src/patch.diff | sed 's|+++ b/||' | xargs -n1 dirname | sort -u)
r3=0
for d in $touched $pkgdir; do
  case $d in
    sdk/go/arvados) t="-run TestAnythingToValues|TestCurrentUser|TestMarshalFilters|TestUnmarshalFilters";;
    services/keepstore) t="-run TestWorkQueue";;
    lib/config) t="-run TestUpToDate";;
    sdk/go/manifest|sdk/go/auth|sdk/go/blockdigest|lib/dispatchcloud/scheduler|lib/dispatchcloud/worker|sdk/go/httpserver|sdk/go/health|sdk/go/asyncbuf) t="";;
    *) t="-run ^\$";;   # no stable tests there: compile only
  esac
  (cd $wt && go test $ov -vet=off -count=1 -timeout 600s $t ./$d >> /tmp/cwt/$id-$x.existing.log 2>&1) || r3=1
done
git -C /repo worktree remove --force $wt
echo "$id/$x: demo pristine rc=$r1 (want 0), patched rc=$r2 (want !=0), existing rc=$r3 (want 0)"
if [ "$r1" = 0 ] && [ "$r2" != 0 ] && [ "$r3" = 0 ]; then
  d=/verif/seeded/$id-$x; mkdir -p $d; cp $src/patch.diff $d/; cp $demo $d/; 
  python3 - "$src/meta.json" "$d/meta.json" "$tests" "$pkgdir" <<'PY'
import json,sys
m=json.load(open(sys.argv[1]))
out={"property":m["property"],"summary":m["summary"],"needs_to_manifest":m["needs_to_manifest"],"files_touched":m.get("files_touched"),
 "demo_package_dir":sys.argv[4],"demo_tests":sys.argv[3],
 "confirmed":"tools/confirm_seed.sh: in a scratch worktree of the pinned commit the demonstration passed on the pristine tree, failed with patch.diff applied, and the stable baseline tests (or compile-only where the package has none) of the touched packages passed with the patch",
 "author":"independent sub-agent given only the property text"}
json.dump(out,open(sys.argv[2],'w'),indent=1)
PY
  echo "  kept as $d"
fi
