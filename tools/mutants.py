#!/usr/bin/env python3
"""Must-fail corpus: applies each textual mutant to a scratch copy of the
repository under test (never to the repository itself), runs govc on the
function named for it, checks that at least one obligation is NOT discharged.
A mutant that does not compile is INVALID (counted as a failure of the corpus,
not as a detection).

usage: tools/mutants.py [--json out.json] [--jobs N] [prop|id ...]
The scratch copies live under $TMPDIR (default /tmp) and are removed at exit."""
import json, subprocess, sys, os, shutil, tempfile, threading, queue

V = os.path.dirname(os.path.dirname(os.path.abspath(__file__)))
REPO = os.environ.get('VERIF_REPO', '/repo')
muts = json.load(open(os.path.join(V, 'selftest/mutants.json')))
# obligations that fail on the unchanged tree (open known findings) do not count as a detection
try:
    KNOWN_OPEN = {k['obligation'] for k in json.load(open(os.path.join(V, 'known_findings.json')))['findings'] if k.get('status') == 'open'}
except Exception:
    KNOWN_OPEN = set()
args = sys.argv[1:]
jsonout = None
jobs = 3
while args and args[0].startswith('--'):
    if args[0] == '--json':
        jsonout = args[1]; args = args[2:]
    elif args[0] == '--jobs':
        jobs = int(args[1]); args = args[2:]
    else:
        break
sel = args
todo = [m for m in muts if not sel or m['prop'] in sel or m['id'] in sel]
jobs = max(1, min(jobs, len(todo)))

def make_copy():
    """A copy of the working tree of REPO (tracked and untracked files, no .git)."""
    d = tempfile.mkdtemp(prefix='govc-mut-')
    r = subprocess.run(['rsync', '-a', '--exclude', '.git', REPO + '/', d + '/'], capture_output=True, text=True)
    if r.returncode != 0:
        raise SystemExit('rsync failed: ' + r.stderr)
    return d

def run_one(m, repo):
    path = os.path.join(repo, m['file'])
    src = open(path).read()
    if src.count(m['old']) != 1:
        return {"id": m['id'], "result": "stale", "line": "%-32s PATTERN matches %d times (corpus needs updating)" % (m['id'], src.count(m['old']))}
    try:
        mutated = src.replace(m['old'], m['new'])
        if 'extra_old' in m:  # a second edit in the same file
            if mutated.count(m['extra_old']) != 1:
                return {"id": m['id'], "result": "stale", "line": "%-32s second PATTERN matches %d times (corpus needs updating)" % (m['id'], mutated.count(m['extra_old']))}
            mutated = mutated.replace(m['extra_old'], m['extra_new'])
        open(path, 'w').write(mutated)
        env = dict(os.environ, VERIF_REPO=repo, GOVC_WORKERS=str(max(2, (os.cpu_count() or 4) // (2 * jobs))))
        r = subprocess.run([os.path.join(V, 'bin/govc'), 'func', '-t', '25', m['pkg'], m['func']], capture_output=True, text=True, env=env)
        out = r.stdout + r.stderr
        if 'load error' in out or 'errors in package' in out:
            return {"id": m['id'], "result": "invalid", "line": "%-32s INVALID  the mutant does not compile: %s" % (m['id'], out.strip().splitlines()[-1][:100])}
        failing = [l.split()[3] if l.startswith('failed') and 'structural' not in l else (l.split()[2] if not l.startswith('translate') else 'translation')
                   for l in out.splitlines() if l.startswith(('failed', 'unknown  ', 'unknown ', 'translate:')) and 'unknown call' not in l]
        failing = [f for f in failing if f not in KNOWN_OPEN]
        detected = r.returncode != 0 and (len(failing) > 0 or 'translate:' in out)
        return {"id": m['id'], "function": m['func'], "result": "detected" if detected else "missed", "failed_obligations": failing[:3], "note": m.get('note', ''),
                "line": "%-32s %s %s" % (m['id'], 'DETECTED' if detected else 'MISSED  ', ' '.join(failing[:2])[:110])}
    finally:
        open(path, 'w').write(src)

q = queue.Queue()
for i, m in enumerate(todo):
    q.put((i, m))
results = [None] * len(todo)
copies = []
lock = threading.Lock()

def worker():
    repo = make_copy()
    with lock:
        copies.append(repo)
    while True:
        try:
            i, m = q.get_nowait()
        except queue.Empty:
            return
        res = run_one(m, repo)
        results[i] = res
        with lock:
            print(res['line'], flush=True)

threads = [threading.Thread(target=worker) for _ in range(jobs)]
try:
    for t in threads:
        t.start()
    for t in threads:
        t.join()
finally:
    for c in copies:
        shutil.rmtree(c, ignore_errors=True)
bad = sum(1 for r in results if r is None or r['result'] != 'detected')
print("mutants missed, stale or invalid:", bad)
if jsonout:
    for r in results:
        if r:
            r.pop('line', None)
    json.dump({"run": len(results), "detected": sum(1 for r in results if r and r['result'] == 'detected'), "results": results}, open(jsonout, 'w'), indent=1)
sys.exit(1 if bad else 0)
