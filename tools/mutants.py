#!/usr/bin/env python3
"""Must-fail corpus: applies each textual mutant to /repo, runs govc on the
function named for it, checks that at least one obligation is NOT discharged,
and restores the file.  usage: tools/mutants.py [prop|id ...]"""
import json, subprocess, sys, os, shutil
V = os.path.dirname(os.path.dirname(os.path.abspath(__file__)))
muts = json.load(open(os.path.join(V, 'selftest/mutants.json')))
args = sys.argv[1:]
jsonout = None
if args and args[0] == '--json':
    jsonout = args[1]; args = args[2:]
sel = args
bad = 0
results = []
for m in muts:
    if sel and m['prop'] not in sel and m['id'] not in sel:
        continue
    path = os.path.join('/repo', m['file'])
    src = open(path).read()
    if src.count(m['old']) != 1:
        print("%-32s PATTERN matches %d times (corpus needs updating)" % (m['id'], src.count(m['old'])))
        bad += 1
        results.append({"id": m['id'], "result": "stale"})
        continue
    shutil.copy(path, path + '.mutbak')
    try:
        open(path, 'w').write(src.replace(m['old'], m['new']))
        r = subprocess.run([os.path.join(V, 'bin/govc'), 'func', '-t', '25', m['pkg'], m['func']], capture_output=True, text=True)
        out = r.stdout + r.stderr
        failing = [l.split()[3] if l.startswith('failed') and 'structural' not in l else (l.split()[2] if not l.startswith('translate') else 'translation') for l in out.splitlines() if l.startswith(('failed', 'unknown  ', 'unknown ', 'translate:')) and 'unknown call' not in l]
        detected = r.returncode != 0 and ('not discharged' in out or 'translate:' in out)
        if 'load error' in out or 'errors in package' in out:
            print("%-32s INVALID  the mutant does not compile: %s" % (m['id'], out.strip().splitlines()[-1][:100]))
            bad += 1
            results.append({"id": m['id'], "result": "invalid"})
            continue
        print("%-32s %s %s" % (m['id'], 'DETECTED' if detected else 'MISSED  ', ' '.join(failing[:2])[:110]))
        results.append({"id": m['id'], "function": m['func'], "result": "detected" if detected else "missed", "failed_obligations": failing[:3], "note": m.get('note', '')})
        if not detected:
            bad += 1
    finally:
        shutil.move(path + '.mutbak', path)
print("mutants missed or stale:", bad)
if jsonout:
    json.dump({"run": len(results), "detected": sum(1 for r in results if r['result'] == 'detected'), "results": results}, open(jsonout, 'w'), indent=1)
sys.exit(1 if bad else 0)
