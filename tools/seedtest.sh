#!/bin/bash
# usage: tools/seedtest.sh <seed-dir-name e.g. C04-B> [command...]
# Applies a seeded change to the repository under test (VERIF_REPO, default
# /repo; it must have no uncommitted changes to tracked files), runs
# "./check <prop> quick" (or the given command) and restores exactly the files
# the patch touched.  The evidence files are not touched: the run writes its
# evidence to a scratch directory.
s=$1; d=/verif/seeded/$s
repo=${VERIF_REPO:-/repo}
[ -f $d/patch.diff ] || { echo "no such seed $s"; exit 2; }
if [ -n "$(git -C $repo status --porcelain --untracked-files=no 2>/dev/null)" ]; then echo "refusing: $repo has uncommitted changes"; exit 2; fi
prop=${s%-*}
export VERIF_EVIDENCE_DIR=$(mktemp -d)
# patch_current.diff: the same change re-based by hand where a later "fix:" commit
# touched the same lines (patch.diff is against the pinned commit)
patch=$d/patch.diff
if ! git -C $repo apply --check $patch 2>/dev/null && [ -f $d/patch_current.diff ]; then patch=$d/patch_current.diff; fi
git -C $repo apply $patch || { rmdir $VERIF_EVIDENCE_DIR; exit 2; }
shift
if [ $# -gt 0 ]; then "$@"; else /verif/check $prop quick; fi
rc=$?
git -C $repo checkout -- $(grep '^+++ b/' $patch | sed 's|+++ b/||')
rm -rf $VERIF_EVIDENCE_DIR
exit $rc
