#!/bin/bash
# usage: tools/seedtest.sh <seed-dir-name e.g. C04-B> <check args...>
# Applies a seeded change to /repo (which must have no uncommitted changes to
# tracked files), runs "./check <prop> quick", and restores exactly the files
# the patch touched.
s=$1; d=/verif/seeded/$s
[ -f $d/patch.diff ] || { echo "no such seed $s"; exit 2; }
if [ -n "$(git -C /repo status --porcelain --untracked-files=no 2>/dev/null)" ]; then echo "refusing: /repo has uncommitted changes"; exit 2; fi
prop=${s%-*}
ev=/verif/evidence/$prop.json; bak=$(mktemp); [ -f $ev ] && cp $ev $bak
git -C /repo apply $d/patch.diff || exit 2
shift
if [ $# -gt 0 ]; then "$@"; else /verif/check $prop quick; fi
rc=$?
git -C /repo checkout -- $(grep '^+++ b/' $d/patch.diff | sed 's|+++ b/||')
# the evidence file describes the unchanged tree: put it back
[ -s $bak ] && cp $bak $ev; rm -f $bak
exit $rc
