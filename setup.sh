#!/bin/bash
# Builds the verifier offline from /verif/engine (x/tools v0.29.0 from the module cache).
set -e
cd "$(dirname "$0")/engine"
export GOFLAGS=-mod=mod GOPROXY=off GOSUMDB=off GOTOOLCHAIN=local
mkdir -p ../bin ../evidence ../replays
go build -o ../bin/govc .
