package auth

import (
	"crypto/hmac"
	"crypto/sha1"
	"fmt"
	"testing"
)

// Defect F04 (property C19): SaltToken treats every 40-character secret as an
// already-salted one.  A genuine (unsalted) secret that happens to be 40
// characters long but is not 40 hex digits is forwarded to its home-prefix
// remote unsalted, or refused with ErrSalted for other remotes.
// pkgdir: sdk/go/auth
func TestF04SaltToken40CharSecret(t *testing.T) {
	secret := "zyxwvutsrqponmlkjihgfedcba9876543210zyxw" // 40 chars, not hex
	if len(secret) != 40 {
		t.Fatal("bad test")
	}
	for _, remote := range []string{"zzzzz", "other"} {
		token := "v2/zzzzz-gj3su-000000000000000/" + secret
		got, err := SaltToken(token, remote)
		h := hmac.New(sha1.New, []byte(secret))
		h.Write([]byte(remote))
		want := "v2/zzzzz-gj3su-000000000000000/" + fmt.Sprintf("%x", h.Sum(nil))
		if err != nil || got != want {
			t.Errorf("SaltToken(%q, %q) = %q, %v; want %q, nil (the unsalted secret must not leave the cluster)", token, remote, got, err, want)
		}
	}
}
