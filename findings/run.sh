#!/bin/bash
# usage: findings/run.sh <finding-dir> [repo]   -- runs the finding's demonstration test against the real code via a go test overlay
set -e
d=$(cd "$1" && pwd); repo=${2:-/repo}
export GOFLAGS=-mod=mod GOPROXY=off GOSUMDB=off GOTOOLCHAIN=local
f=$(ls $d/zz_*_test.go | head -1)
pkgdir=$(grep -m1 '^// pkgdir:' $f | awk '{print $3}')
tmp=$(mktemp -d); trap "rm -rf $tmp" EXIT
standin=/verif/engine/standins/login_pam.go
python3 - "$f" "$repo/$pkgdir/$(basename $f)" "$repo" "$standin" > $tmp/ov.json <<'PY'
import json,sys,os
rep={sys.argv[2]:sys.argv[1]}
if os.path.exists(sys.argv[4]): rep[sys.argv[3]+"/lib/controller/localdb/login_pam.go"]=sys.argv[4]
print(json.dumps({"Replace":rep}))
PY
names=$(grep -o 'func Test[A-Za-z0-9_]*' $f | awk '{print $2}' | paste -sd'|')
cd $repo && go test -overlay $tmp/ov.json -vet=off -count=1 -timeout 120s -run "^(${names})\$" ./$pkgdir
