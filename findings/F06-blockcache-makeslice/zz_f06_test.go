package keepclient

import (
	"bytes"
	"io/ioutil"
	"net/http"
	"testing"

	"git.arvados.org/arvados.git/sdk/go/arvadosclient"
)

// Defect F06 (property C03): BlockCache.Get's fetch goroutine allocates
// make([]byte, size, bufsize) where size comes from the server (Content-Length
// of a locator without size hint) and bufsize is BLOCKSIZE; a server answering
// with a larger Content-Length makes the goroutine panic ("makeslice: cap out
// of range") and kills the client process instead of ending the read with an
// error.
// pkgdir: sdk/go/keepclient
type f06Client struct{}

func (f06Client) Do(req *http.Request) (*http.Response, error) {
	n := int64(BLOCKSIZE + 1)
	return &http.Response{StatusCode: 200, Status: "200 OK", ContentLength: n, Header: http.Header{},
		Body: ioutil.NopCloser(bytes.NewReader(make([]byte, 16))), Request: req}, nil
}

func TestF06OversizedContentLength(t *testing.T) {
	kc := &KeepClient{Arvados: &arvadosclient.ArvadosClient{ApiToken: "x"}, Want_replicas: 2, Retries: 0}
	kc.HTTPClient = f06Client{}
	kc.SetServiceRoots(map[string]string{"zzzzz-bi6l4-000000000000000": "http://keep0.invalid"}, nil, nil)
	kc.BlockCache = &BlockCache{}
	p := make([]byte, 4)
	_, err := kc.ReadAt("acbd18db4cc2f85cedef654fccc4a4d8", p, 0) // no size hint
	if err == nil {
		t.Fatal("expected an error for an oversized/incorrect response")
	}
	t.Logf("read ended with error: %v", err)
}
