package manifest

import "testing"

// Defect F02 (property C10): parseManifestStream adds 64-bit quantities without
// checking for wrap-around.  A file token whose position+length exceeds 2^64
// wraps to a small number, passes the "extends past end of stream" check, and
// the segment iterator then panics; "malformed manifests are rejected with an
// error" and "no parser panics" both fail.
// pkgdir: sdk/go/manifest
func TestF02FileTokenWrap(t *testing.T) {
	s := parseManifestStream(". 5d41402abc4b2a76b9719d911017c592+5 18446744073709551615:2:x")
	if s.Err == nil {
		t.Errorf("file token 18446744073709551615:2:x on a 5-byte stream was accepted")
		func() {
			defer func() {
				if r := recover(); r != nil {
					t.Errorf("and iterating over it panics: %v", r)
				}
			}()
			ch := make(chan *FileSegment, 10)
			s.sendFileSegmentIterByName("./x", ch)
		}()
	}
	// block sizes whose sum wraps
	s = parseManifestStream(". 5d41402abc4b2a76b9719d911017c592+9223372036854775807 5d41402abc4b2a76b9719d911017c592+9223372036854775807 5d41402abc4b2a76b9719d911017c592+5 0:3:y")
	if s.Err == nil {
		t.Errorf("stream whose block sizes sum to more than 2^64 was accepted (offsets %v)", s.blockOffsets)
	}
}
