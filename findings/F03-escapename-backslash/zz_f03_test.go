package manifest

import "testing"

// Defect F03 (property C10): EscapeName does not escape the backslash, so a
// file name that contains a literal backslash followed by three digits (or by
// another backslash) changes when the manifest text is parsed again:
// "extracting or normalizing a manifest preserves each file's ... unescaped name".
// pkgdir: sdk/go/manifest
func TestF03EscapeNameBackslash(t *testing.T) {
	for _, name := range []string{`a\040b`, `x\\y`, `plain name`, `tab	here`} {
		if got := UnescapeName(EscapeName(name)); got != name {
			t.Errorf("UnescapeName(EscapeName(%q)) = %q", name, got)
		}
	}
	// through normalization of a manifest whose file is named a\040b (written a\134040b)
	m := Manifest{Text: ". d41d8cd98f00b204e9800998ecf8427e+0 0:0:a\\134040b\n"}
	out := m.Extract(".", ".").Text
	m2 := Manifest{Text: out}
	var names []string
	for s := range m2.StreamIter() {
		for _, f := range s.FileStreamSegments {
			names = append(names, f.Name)
		}
	}
	if len(names) != 1 || names[0] != `a\040b` {
		t.Errorf("after Extract: file names %q (manifest %q), want [a\\040b]", names, out)
	}
}
