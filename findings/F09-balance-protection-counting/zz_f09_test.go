// pkgdir: services/keep-balance
// Finding F09 (open): see /verif/known_findings.json and DESIGN.md 10.4.  Written by an independent
// sub-agent (round 8, C05) that was given only the property text; confirmed with findings/run.sh.
// Layouts for which the PRISTINE keep-balance violates the clause
//
//   "carrying out every computed trash request while no pull succeeds
//   still leaves each storage class with at least min(desired,
//   previously existing) replication, counted over distinct physical
//   devices".
//
// Copy this file into services/keep-balance/ (it is in package main)
// and run, from the repository root:
//
//   export GOFLAGS=-mod=mod GOPROXY=off GOSUMDB=off GOTOOLCHAIN=local
//   go test -vet=off -count=1 -timeout 120s ./services/keep-balance/ -run 'TestPristineC05' -v
//
// Every test here FAILS on the pristine tree. No network, no
// database; the Balancer, services, mounts and BlockState are built
// directly, as upstream's balancerSuite does.

package main

import (
	"fmt"
	"io/ioutil"
	"sort"
	"testing"
	"time"

	"git.arvados.org/arvados.git/sdk/go/arvados"
	"git.arvados.org/arvados.git/sdk/go/keepclient"
	"github.com/sirupsen/logrus"
)

// pc05Mount describes one mount. rank is the rendezvous position
// (0 = best) of the server it is on; mounts with equal rank are on
// the same server. mtime is an offset (in ns) added to a timestamp
// one day older than MinMtime; 0 means "no replica here". Mounts
// with the same device must be given the same mtime.
type pc05Mount struct {
	rank    int
	name    string
	device  string
	repl    int
	classes []string // nil = no storage classes reported (=> "default")
	mtime   int64
}

func pc05Run(t *testing.T, nsrv int, layout []pc05Mount, desired map[string]int) {
	logger := logrus.New()
	logger.Out = ioutil.Discard

	blkid := arvados.SizedDigest("acbd18db4cc2f85cedef654fccc4a4d8+3")
	roots := map[string]string{}
	for i := 0; i < nsrv; i++ {
		u := fmt.Sprintf("zzzzz-bi6l4-%015x", i)
		roots[u] = u
	}
	order := keepclient.NewRootSorter(roots, string(blkid[:32])).GetSortedRoots()

	bal := &Balancer{Logger: logger}
	bal.KeepServices = map[string]*KeepService{}
	bal.MinMtime = time.Now().UnixNano() - 3600*1e9
	old := bal.MinMtime - 86400*1e9

	srvs := make([]*KeepService, nsrv)
	for rank := range srvs {
		srvs[rank] = &KeepService{
			KeepService: arvados.KeepService{UUID: order[rank], ServiceHost: fmt.Sprintf("keep-rank%d", rank), ServicePort: 25107, ServiceType: "disk"},
			ChangeSet:   &ChangeSet{},
		}
		bal.KeepServices[order[rank]] = srvs[rank]
	}
	blk := &BlockState{Desired: desired}
	var mounts []*KeepMount
	devMtime := map[string]int64{} // physical truth: device -> replica mtime
	desc := fmt.Sprintf("block %s, desired %v, MinMtime=T; layout (rendezvous rank 0 = best):\n", blkid, desired)
	for _, lm := range layout {
		m := &KeepMount{
			KeepMount: arvados.KeepMount{
				UUID:        "zzzzz-mount-" + lm.name,
				DeviceID:    lm.device,
				Replication: lm.repl,
			},
			KeepService: srvs[lm.rank],
		}
		if lm.classes != nil {
			m.StorageClasses = map[string]bool{}
			for _, c := range lm.classes {
				m.StorageClasses[c] = true
			}
		}
		srvs[lm.rank].mounts = append(srvs[lm.rank].mounts, m)
		mounts = append(mounts, m)
		have := "no replica"
		if lm.mtime != 0 {
			if prev, ok := devMtime[lm.device]; ok && prev != old+lm.mtime {
				t.Fatalf("bad fixture: device %s has two mtimes", lm.device)
			}
			devMtime[lm.device] = old + lm.mtime
			blk.Replicas = append(blk.Replicas, Replica{KeepMount: m, Mtime: old + lm.mtime})
			have = fmt.Sprintf("replica mtime T-1d+%dns", lm.mtime)
		}
		classes := "[] (=default)"
		if lm.classes != nil {
			classes = fmt.Sprint(lm.classes)
		}
		desc += fmt.Sprintf("  rank %d server %s: mount %s device %q writable Replication=%d classes=%s: %s\n",
			lm.rank, order[lm.rank], m.UUID, lm.device, lm.repl, classes, have)
	}

	bal.cleanupMounts()
	bal.setupLookupTables()
	if bal.mounts != len(layout) {
		t.Fatalf("bad fixture: cleanupMounts dropped mounts")
	}
	bal.balanceBlock(blkid, blk)

	// replication of a class over distinct devices holding a replica
	classRepl := func(class string, has map[string]int64) int {
		seen := map[string]bool{}
		n := 0
		for _, m := range mounts {
			if _, ok := has[m.DeviceID]; !ok || seen[m.DeviceID] || !bal.mountsByClass[class][m] {
				continue
			}
			seen[m.DeviceID] = true
			n += m.Replication
		}
		return n
	}
	after := map[string]int64{}
	for d, mt := range devMtime {
		after[d] = mt
	}
	for rank, srv := range srvs {
		for _, p := range srv.ChangeSet.Pulls {
			desc += fmt.Sprintf("  computed PULL  to   rank %d mount %s (device %q) from %s  [assumed not to succeed]\n", rank, p.To.UUID, p.To.DeviceID, p.From.UUID)
		}
		for _, tr := range srv.ChangeSet.Trashes {
			desc += fmt.Sprintf("  computed TRASH from rank %d mount %s (device %q) mtime T-1d+%dns\n", rank, tr.From.UUID, tr.From.DeviceID, tr.Mtime-old)
			if after[tr.From.DeviceID] == tr.Mtime {
				delete(after, tr.From.DeviceID)
			}
		}
	}
	classes := append([]string(nil), bal.classes...)
	sort.Strings(classes)
	for _, class := range classes {
		d := desired[class]
		before := classRepl(class, devMtime)
		min := d
		if before < min {
			min = before
		}
		if a := classRepl(class, after); a < min {
			t.Errorf("storage class %q: replication over distinct devices is %d after executing the computed trash lists; desired %d, previously existing %d, so at least %d must remain\n%s", class, a, d, before, min, desc)
		}
	}
}

// (a) Two storage classes, no shared devices, Replication=1
// everywhere, nothing read-only: 2 servers, 3 mounts.
//
// Class "a" is satisfied by the replica on the rank-1 server, class
// "default" by the replica on mount "plain" of the rank-0 server. The
// balancer decides to pull a copy to mount "both" (classes a+default,
// rank 0) and trashes the only "default" replica straight away.
func TestPristineC05_MultiClass(t *testing.T) {
	pc05Run(t, 2, []pc05Mount{
		{rank: 0, name: "plain", device: "dev1", repl: 1, classes: nil, mtime: 1},
		{rank: 0, name: "both", device: "dev2", repl: 1, classes: []string{"a", "default"}, mtime: 0},
		{rank: 1, name: "a-only", device: "dev3", repl: 1, classes: []string{"a"}, mtime: 2},
	}, map[string]int{"a": 1, "default": 1})
}

// (b) One storage class; one device mounted read-write on two
// servers; an empty better-ranked slot with Replication=2: 4
// servers, 4 mounts.
//
// Physical replication is 2 (dev-shared + dev-other) = desired. The
// balancer plans a pull to the empty Replication=2 volume, counts
// the two views of dev-shared as two protected replicas, and trashes
// dev-other: one physical copy remains.
func TestPristineC05_SharedDeviceReplication2(t *testing.T) {
	pc05Run(t, 4, []pc05Mount{
		{rank: 0, name: "empty", device: "dev-empty", repl: 2, mtime: 0},
		{rank: 1, name: "view1", device: "dev-shared", repl: 1, mtime: 1},
		{rank: 2, name: "view2", device: "dev-shared", repl: 1, mtime: 1},
		{rank: 3, name: "other", device: "dev-other", repl: 1, mtime: 2},
	}, map[string]int{"default": 2})
}

// (b') Same mechanism with Replication=1 on every mount: it then
// takes two empty better-ranked servers (5 servers, 5 mounts).
func TestPristineC05_SharedDeviceReplication1(t *testing.T) {
	pc05Run(t, 5, []pc05Mount{
		{rank: 0, name: "empty1", device: "dev-empty1", repl: 1, mtime: 0},
		{rank: 1, name: "empty2", device: "dev-empty2", repl: 1, mtime: 0},
		{rank: 2, name: "view1", device: "dev-shared", repl: 1, mtime: 1},
		{rank: 3, name: "view2", device: "dev-shared", repl: 1, mtime: 1},
		{rank: 4, name: "other", device: "dev-other", repl: 1, mtime: 2},
	}, map[string]int{"default": 2})
}
