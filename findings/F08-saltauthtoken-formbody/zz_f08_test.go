package controller

import (
	"io/ioutil"
	"net/http"
	"net/url"
	"strings"
	"testing"

	"git.arvados.org/arvados.git/sdk/go/arvados"
)

// Finding F08 (property C19): Handler.saltAuthToken looks for a token in the
// form body only when Content-Type == "application/x-www-form-encoded" (sic);
// the real media type is application/x-www-form-urlencoded.  A request that
// carries its token in a urlencoded form body is therefore returned - and
// then proxied to the remote cluster - unchanged: the unsalted secret stays in
// the body and no Authorization header is set.
// pkgdir: lib/controller
func TestF08FormBodyTokenLeftUnsalted(t *testing.T) {
	h := &Handler{Cluster: &arvados.Cluster{ClusterID: "zhome"}}
	secret := "3kg6k6lzmp9kj5cpkcoxie963cmvjahbt2fod9zru30k1jqdmi"
	form := url.Values{"api_token": {"v2/zhome-gj3su-000000000000000/" + secret}, "x": {"y"}}
	req, _ := http.NewRequest("POST", "https://zhome.example/arvados/v1/workflows", strings.NewReader(form.Encode()))
	req.Header.Set("Content-Type", "application/x-www-form-urlencoded")
	out, err := h.saltAuthToken(req, "zzzzz")
	if err != nil {
		t.Fatal(err)
	}
	body, _ := ioutil.ReadAll(out.Body)
	if strings.Contains(string(body), secret) {
		t.Errorf("forwarded form body still contains the unsalted secret: %q", body)
	}
	if got := out.Header.Get("Authorization"); !strings.HasPrefix(got, "Bearer v2/zhome-gj3su-000000000000000/") || strings.Contains(got, secret) {
		t.Errorf("forwarded Authorization header = %q, want a salted Bearer token", got)
	}
}

// The rewritten request must still be a well-formed HTTP request when proxied.
func TestF08ForwardedRequestIsConsistent(t *testing.T) {
	h := &Handler{Cluster: &arvados.Cluster{ClusterID: "zhome"}}
	form := url.Values{"api_token": {"v2/zhome-gj3su-000000000000000/3kg6k6lzmp9kj5cpkcoxie963cmvjahbt2fod9zru30k1jqdmi"}, "x": {"y"}}
	req, _ := http.NewRequest("POST", "https://zhome.example/arvados/v1/workflows", strings.NewReader(form.Encode()))
	req.Header.Set("Content-Type", "application/x-www-form-urlencoded")
	out, err := h.saltAuthToken(req, "zzzzz")
	if err != nil {
		t.Fatal(err)
	}
	body, _ := ioutil.ReadAll(out.Body)
	if out.ContentLength != int64(len(body)) {
		t.Errorf("ContentLength %d but body has %d bytes (%q)", out.ContentLength, len(body), body)
	}
	if string(body) != "x=y" {
		t.Errorf("body = %q, want the other form fields only", body)
	}
}
