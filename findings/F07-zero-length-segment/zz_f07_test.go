package arvados

import (
	"fmt"
	"io"
	"io/ioutil"
	"testing"
)

// Defect F07 (properties C08, C10): dirnode.loadManifest appends a zero-length
// storedSegment for a file token of size 0 that points strictly inside a block
// ("2:0:f").  filenode.seek relies on every segment being non-empty; after a
// seek, a handle can land on the empty segment and Read then returns (0, EOF)
// although data follows.
// pkgdir: sdk/go/arvados
type f07Keep struct{}

func (f07Keep) ReadAt(locator string, p []byte, off int) (int, error) {
	data := []byte("hello")
	if off > len(data) {
		return 0, io.EOF
	}
	return copy(p, data[off:]), nil
}
func (f07Keep) PutB(p []byte) (string, int, error) { return "", 0, fmt.Errorf("read only") }
func (f07Keep) LocalLocator(locator string) (string, error) { return locator, nil }

func TestF07ZeroLengthSegment(t *testing.T) {
	for _, tc := range []struct{ manifest, file, want string; seek int64 }{
		{". 5d41402abc4b2a76b9719d911017c592+5 2:0:f 0:5:f\n", "f", "hello", 0},
		{". 5d41402abc4b2a76b9719d911017c592+5 0:2:g 3:0:g 2:3:g\n", "g", "llo", 2},
	} {
		fs, err := (&Collection{ManifestText: tc.manifest}).FileSystem(nil, f07Keep{})
		if err != nil {
			t.Fatal(err)
		}
		f, err := fs.Open(tc.file)
		if err != nil {
			t.Fatal(err)
		}
		f.Seek(1, io.SeekStart)
		f.Seek(tc.seek, io.SeekStart)
		buf, err := ioutil.ReadAll(f)
		if err != nil || string(buf) != tc.want {
			t.Errorf("%q: after Seek(1), Seek(%d): read %q, %v; want %q", tc.manifest, tc.seek, buf, err, tc.want)
		}
	}
}
