package manifest

import "testing"

// Defect F01 (property C10): firstBlock returns -1 for a rangeStart that lies
// inside the stream when an interior zero-length block starts at rangeStart.
// pkgdir: sdk/go/manifest
func TestF01FirstBlockZeroLengthBlock(t *testing.T) {
	if got := firstBlock([]uint64{0, 5, 5, 10}, 5); got != 2 {
		t.Fatalf("firstBlock([0 5 5 10], 5) = %d, want 2", got)
	}
	// the same through the code path Manifest.Extract / FileSegmentIterByName use
	s := parseManifestStream(". 5d41402abc4b2a76b9719d911017c592+5 d41d8cd98f00b204e9800998ecf8427e+0 7d793037a0760186574b0282f2f435e7+5 5:5:foo")
	if s.Err != nil {
		t.Fatal(s.Err)
	}
	func() {
		defer func() {
			if r := recover(); r != nil {
				t.Errorf("valid manifest with an interior zero-length block: panic: %v", r)
			}
		}()
		ch := make(chan *FileSegment, 10)
		s.sendFileSegmentIterByName("./foo", ch)
		close(ch)
		n := 0
		for seg := range ch {
			n++
			if seg.Len != 5 || seg.Offset != 0 {
				t.Errorf("bad segment %+v", seg)
			}
		}
		if n != 1 {
			t.Errorf("%d segments, want 1", n)
		}
	}()
}
